"""C20 - stateful QPACK encoder and decoder stay in agreement."""
import re
from core import Property

NAMES = [b'a', b'bb', b'x-custom-name', b'accept', b':method', b'cookie', b'content-type', b'n' * 40, b':path', b'x-c',
         # static names whose index needs a continuation byte in a 6-bit prefix, a name whose length does, and near-misses of static rows
         b'user-agent', b'authorization', b'origin', b'server', b'accept-language', b'q' * 64,
         b'Accept', b'ACCEPT', b'accept ', b'accep', b':Method', b'User-Agent', b'\xe9tag', b'cookie\x80', b'content-typ', b':paths']
VALUES = [b'', b'1', b'22', b'GET', b'*/*', b'text/plain', b'v' * 20, b'w' * 70, b'/', b'/index.html',
          b'v' * 200, b'get', b'GET ', b'\xff\x00\x80', b'Text/Plain', b'*/* ', b'0', b'/ ']
CAPS = [0, 1, 31, 32, 33, 34, 40, 63, 64, 66, 70, 96, 100, 128, 160, 200, 256, 300, 512, 1024, 2048, 4095, 4096]
BLOCKED = [0, 1, 2, 3, 5, 10, 100]


def fstr(f):
    return f[0].hex() + '=' + f[1].hex()


def gen_history(rng, style=None, nsec=None, resize=False, cancel=False):
    na = rng.randint(1, 4)
    nv = rng.randint(1, 4)
    names = rng.sample(NAMES, na)
    values = rng.sample(VALUES, nv)
    cap = rng.choice(CAPS) if rng.random() < 0.8 else rng.randint(0, 4096)
    blocked = rng.choice(BLOCKED) if rng.random() < 0.8 else rng.randint(0, 100)
    if nsec is None:
        nsec = rng.randint(1, 10) if rng.random() < 0.8 else rng.randint(11, 40)
    style = style or rng.choice(['sync', 'late', 'late', 'bytes', 'bytes', 'burst', 'noack'])
    nstreams = rng.choice([1, 2, 3, nsec, nsec])
    sid0 = rng.choice([0, 0, 0, 100, 252, 16380, 1 << 20, (1 << 40) + 4])      # HeaderAck with 1, 2, 3 and more bytes
    sids = [sid0 + 4 * i for i in range(nstreams)]
    unique = nstreams == nsec
    ops = []
    sec_sid = []
    pending_bound = 0     # upper bound on undelivered encoder instructions
    dq_bound = 0          # upper bound on undelivered decoder instructions
    cancelled = set()

    def deliver_all():
        nonlocal pending_bound, dq_bound
        while pending_bound > 0:
            ops.append('I50')
            pending_bound -= 50
            dq_bound += 1
        pending_bound = 0

    def feedback_all():
        nonlocal dq_bound
        if dq_bound > 0:
            ops.append('K%d' % (dq_bound + 5))
        dq_bound = 0

    for j in range(nsec):
        nf = rng.choice([0, 1, 1, 2, 2, 3, 4, 6])
        fs = [(rng.choice(names), rng.choice(values)) for _ in range(nf)]
        live = [s for s in sids if s not in cancelled] or [sid0 + 4 * (len(sids) + j)]
        sid = sids[j] if unique else rng.choice(live)
        sec_sid.append(sid)
        ops.append('E%d:%s' % (sid, '.'.join(fstr(f) for f in fs)))
        pending_bound += nf
        if resize and rng.random() < 0.15:
            ops.append('Z%d' % rng.choice(CAPS))
            pending_bound += 1
        if style == 'sync':
            deliver_all()
            ops.append('B%d' % j)
            dq_bound += 1
            feedback_all()
        elif style == 'bytes':
            # both streams move a few BYTES at a time: cuts inside string literals and multi-byte integers
            for _ in range(rng.randint(0, 5)):
                r = rng.random()
                if r < 0.45:
                    ops.append('i%d' % rng.choice([1, 1, 2, 3, 4, 5, 7, 8, 11, 16, 30]))
                    dq_bound += 1
                elif r < 0.7:
                    ops.append('B%d' % rng.randint(0, j))
                    dq_bound += 1
                elif r < 0.95:
                    ops.append('k%d' % rng.choice([1, 1, 1, 2, 2, 3, 5]))
                else:
                    ops.append(rng.choice(['I1', 'K1', 'I0', 'K0']))
                    dq_bound += 1
        elif style in ('late', 'noack'):
            for _ in range(rng.randint(0, 3)):
                r = rng.random()
                if r < 0.1:
                    ops.append('i%d' % rng.choice([1, 2, 3, 5, 9, 20]))
                    dq_bound += 1
                elif r < 0.35:
                    k = rng.choice([0, 1, 1, 2, 3, 5])
                    ops.append('I%d' % k)
                    pending_bound = max(0, pending_bound)  # stays an upper bound
                    dq_bound += 1
                elif r < 0.7:
                    t = rng.randint(0, j)
                    ops.append(('B%d' if rng.random() < 0.9 else 'b%d') % t)
                    dq_bound += 1
                elif r < 0.8 and style != 'noack':
                    ops.append('K%d' % rng.choice([1, 1, 2, 3]))
                elif r < 0.9 and style != 'noack':
                    ops.append('k%d' % rng.choice([1, 2, 3]))
                elif r < 0.96 and cancel and not unique and len(live) > 1:
                    c = rng.choice(live)
                    cancelled.add(c)
                    ops.append('C%d' % c)
                    dq_bound += 1
        elif style == 'burst':
            if rng.random() < 0.25:
                deliver_all()
                for t in range(j + 1):
                    ops.append('B%d' % t)
                    dq_bound += 1
                if rng.random() < 0.7:
                    feedback_all()
    # drain: everything is delivered, every section decoded (two passes release held ones), acks delivered
    deliver_all()
    for _ in range(2 if not unique else 1):
        for t in range(nsec):
            ops.append('B%d' % t)
            dq_bound += 1
    feedback_all()
    # a little more traffic after the drain (references are released now)
    if rng.random() < 0.5:
        j = nsec
        fs = [(rng.choice(names), rng.choice(values)) for _ in range(rng.randint(1, 4))]
        live = [s for s in sids if s not in cancelled] or [sid0 + 4 * (len(sids) + j)]
        ops.append('E%d:%s' % (rng.choice(live), '.'.join(fstr(f) for f in fs)))
        ops.append('b%d' % j)
        ops.append('I50')
        ops.append('B%d' % j)
        ops.append('K9')
    return '%s %d %d %s' % ('qz' if resize else 'qc' if cancel else 'qs', cap, blocked, ','.join(ops))


def gen_ahead(rng):
    """honest: the decoder is AHEAD of an old section's Required Insert Count across a multiple of 2*max_entries
    (second wrap branch of HeaderPrefix::get): evictions after acknowledgements, one section left undecoded, more
    insertions, then the old section is decoded"""
    cap = rng.randint(68, 400)
    me = cap // 32
    entries = cap // 34
    q = rng.randint(1, 3)
    bd = 2 * me * q
    mmax = entries - 1
    if mmax < 1:
        return gen_ahead(rng)
    d = rng.randint(1, mmax)
    m = rng.randint(d, mmax)
    r = bd - d
    n = [0]

    def fresh():
        i = n[0]
        n[0] += 1
        return (bytes([97 + (i // 26) % 26, 97 + i % 26]), b'')
    ops = []
    j = 0
    sid0 = rng.choice([0, 252, 16380])
    for _ in range(r - 1):
        ops += ['E%d:%s' % (sid0 + 4 * j, fstr(fresh())), rng.choice(['I9', 'i40']), 'B%d' % j, rng.choice(['K9', 'k9'])]
        j += 1
    pinned = j
    ops += ['E%d:%s' % (sid0 + 4 * j, fstr(fresh())), 'I9']
    j += 1
    for _ in range(m):
        ops += ['E%d:%s' % (sid0 + 4 * j, fstr(fresh())), 'I9', 'B%d' % j, 'K9']
        j += 1
    ops += ['B%d' % pinned, 'K9']
    return 'qs %d 100 %s' % (cap, ','.join(ops))


def gen_big(rng):
    """large tables (up to ~120 entries, several hundred insertions), bursts of 13..64 insertions per on_encoder_recv call
    (63 and 64 included), relative / duplicate / name-reference indices that need continuation bytes"""
    variant = rng.choice(['A', 'A', 'B'])
    blocked = rng.choice([13, 100])
    n = [0]

    def fld(i, v=b''):
        return (bytes([97 + (i // 26) % 26, 97 + i % 26]) + (b'x' if i >= 676 else b''), v)

    def fresh():
        n[0] += 1
        return fld(n[0] - 1)
    ops, j, pend = [], 0, []
    sid0 = rng.choice([0, 252, 16380])

    def flush(k):
        # one on_encoder_recv call delivering k insertions, then the rest, decode everything, acknowledge
        nonlocal pend
        ops.append(rng.choice(['I%d', 'I%d', 'i250', 'I%d']).replace('%d', str(k)))
        ops.append('I64')
        ops.extend('B%d' % t for t in pend)
        ops.append('K99')
        pend = []
    target = rng.randint(125, 150) if variant == 'A' else rng.randint(240, 270)
    bursts = [64, 63] + [rng.randint(13, 62) for _ in range(8)]
    bi = 0
    cur = 0
    while n[0] < target:
        nf = rng.choice([5, 6, 6, 6])
        ops.append('E%d:%s' % (sid0 + 4 * j, '.'.join(fstr(fresh()) for _ in range(nf))))
        pend.append(j)
        j += 1
        cur += nf
        if cur >= bursts[bi % len(bursts)]:
            flush(bursts[bi % len(bursts)])
            bi += 1
            cur = 0
    flush(64)
    # re-use of old entries: exact matches (Indexed / Duplicate with large indices), old names with new values (name references)
    live_lo = max(0, n[0] - 115)
    for _ in range(rng.randint(2, 4)):
        fs = []
        for _ in range(rng.randint(2, 5)):
            i = rng.randint(live_lo, n[0] - 1)
            fs.append(fld(i) if rng.random() < 0.6 else fld(i, rng.choice([b'1', b'zz'])))
        ops.append('E%d:%s' % (sid0 + 4 * j, '.'.join(fstr(f) for f in fs)))
        pend.append(j)
        j += 1
        if rng.random() < 0.5:
            flush(20)
    if blocked == 13:
        # thirteen unacknowledged insertions close the blocked-stream gate: name references become literals with large name indices
        for _ in range(13):
            ops.append('E%d:%s' % (sid0 + 4 * j, fstr(fresh())))
            pend.append(j)
            j += 1
        fs = [fld(rng.randint(live_lo, n[0] - 2), b'new') for _ in range(3)]
        ops.append('E%d:%s' % (sid0 + 4 * j, '.'.join(fstr(f) for f in fs)))
        pend.append(j)
        j += 1
    flush(30)
    return 'qs 4096 %d %s' % (blocked, ','.join(ops))


def _pint(b, pos, nbits):
    """prefix integer at b[pos]: returns (value, next position) or None when cut"""
    if pos >= len(b):
        return None
    mask = (1 << nbits) - 1
    v = b[pos] & mask
    pos += 1
    if v < mask:
        return v, pos
    shift = 0
    while True:
        if pos >= len(b):
            return None
        c = b[pos]
        pos += 1
        v += (c & 0x7f) << shift
        shift += 7
        if not c & 0x80:
            return v, pos


def seg_encoder_stream(b):
    """instruction boundaries and the byte spans of multi-byte prefix integers of an encoder stream"""
    bounds, ints, pos = [0], [], 0
    while pos < len(b):
        first = b[pos]
        parts = []          # (kind, nbits)
        if first & 0x80:
            parts = [('int', 6), ('str', 7)]
        elif first & 0x40:
            parts = [('str', 5), ('str', 7)]
        else:
            parts = [('int', 5)]
        p = pos
        for kind, nb in parts:
            r = _pint(b, p, nb)
            if r is None:
                return bounds, ints
            v, q = r
            if q - p >= 2:
                ints.append((p, q))
            p = q + (v if kind == 'str' else 0)
        if p > len(b):
            return bounds, ints
        pos = p
        bounds.append(pos)
    return bounds, ints


# ---------------------------------------------------------------- qp.e / qp.d: the instruction parsers on raw bytes
def _c15():
    import importlib
    return importlib.import_module('props.c15')       # RFC 7541 integer encoder and the spec-data Huffman table (never h3's)


def w_int(size, flags, v):
    return _c15().pi_encode(size, flags, v)


def w_str(nbits, above, s, huff):
    """string literal: `above` are the pattern bits above the H bit, nbits the length prefix"""
    payload = _c15().huff_encode(s) if huff else bytes(s)
    return w_int(nbits, (above << 1) | (1 if huff else 0), len(payload)) + payload


def w_einstr(i, rng=None):
    h = (lambda: rng.random() < 0.7) if rng else (lambda: True)
    k = i[0]
    if k == 'Z':
        return w_int(5, 1, i[1])
    if k == 'U':
        return w_int(5, 0, i[1])
    if k == 'IS':
        return w_int(6, 3, i[1]) + w_str(7, 0, i[2], h())
    if k == 'ID':
        return w_int(6, 2, i[1]) + w_str(7, 0, i[2], h())
    return w_str(5, 1, i[1], h()) + w_str(7, 0, i[2], h())          # IL


def w_dinstr(i):
    return {'A': lambda: w_int(7, 1, i[1]), 'X': lambda: w_int(6, 1, i[1]), 'N': lambda: w_int(6, 0, i[1])}[i[0]]()


def r_int(b, pos, nbits):
    """reference reading of a prefix integer: ('ok', value, next) | ('cut',) | ('bad',): `bad` = more than what RFC 9204
    asks an implementation to support (62 bits) or ten and more continuation octets, as soon as that can be seen"""
    if pos >= len(b):
        return ('cut',)
    mask = (1 << nbits) - 1
    v = b[pos] & mask
    pos += 1
    if v < mask:
        return ('ok', v, pos)
    shift = 0
    while True:
        if shift >= 63:
            return ('bad',)
        if pos >= len(b):
            return ('cut',)
        c = b[pos]
        pos += 1
        v += (c & 0x7f) << shift
        shift += 7
        if not c & 0x80:
            return ('ok', v, pos) if v < 1 << 62 else ('bad',)


def r_str(b, pos, nbits):
    """reference reading of a string literal: ('ok', value, next) | ('cut',) | ('bad',)"""
    r = r_int(b, pos, nbits)
    if r[0] != 'ok':
        return r
    _, n, q = r
    if q + n > len(b):
        return ('cut',)
    payload = bytes(b[q:q + n])
    if not (b[pos] >> nbits) & 1:
        return ('ok', payload, q + n)
    c15 = _c15()
    syms, rest = c15.greedy_split(c15.bits_of(payload))
    if len(rest) <= 7 and set(rest) <= {'1'}:
        return ('ok', bytes(syms), q + n)
    return ('bad',)


def r_instrs(b, which):
    """RFC 9204 4.3 / 4.4 reference split of a stream: ([(word, end offset)], offset where the reference stops
    constraining: the start of the first instruction that is malformed or beyond what h3 supports (integer >= 2^62, Huffman
    string that is not a valid RFC 7541 5.2 encoding, increment above 64), or None)"""
    out, pos = [], 0
    while pos < len(b):
        f = b[pos]
        word = None
        if which == 'e':
            if f & 0x80:
                r = r_int(b, pos, 6)
                if r[0] != 'ok':
                    return out, (pos if r[0] == 'bad' else None)
                v = r_str(b, r[2], 7)
                if v[0] != 'ok':
                    return out, (pos if v[0] == 'bad' else None)
                word, nxt = '%s%d=%s' % ('IS' if f & 0x40 else 'ID', r[1], v[1].hex()), v[2]
            elif f & 0x40:
                n = r_str(b, pos, 5)
                if n[0] != 'ok':
                    return out, (pos if n[0] == 'bad' else None)
                v = r_str(b, n[2], 7)
                if v[0] != 'ok':
                    return out, (pos if v[0] == 'bad' else None)
                word, nxt = 'IL%s=%s' % (n[1].hex(), v[1].hex()), v[2]
            else:
                r = r_int(b, pos, 5)
                if r[0] != 'ok':
                    return out, (pos if r[0] == 'bad' else None)
                word, nxt = '%s%d' % ('Z' if f & 0x20 else 'U', r[1]), r[2]
        else:
            r = r_int(b, pos, 7 if f & 0x80 else 6)
            if r[0] != 'ok':
                return out, (pos if r[0] == 'bad' else None)
            if not f & 0xc0 and r[1] > 64:
                return out, pos
            word, nxt = '%s%d' % ('A' if f & 0x80 else 'X' if f & 0x40 else 'N', r[1]), r[2]
        out.append((word, nxt))
        pos = nxt
    return out, None


def qp_pieces(n, cuts):
    """piece sizes as the drivers cut them"""
    sizes, pos = [], 0
    if cuts != '-':
        for c in cuts.split('.'):
            if c:
                k = min(int(c), n - pos)
                sizes.append(k)
                pos += k
    if pos < n or not sizes:
        sizes.append(n - pos)
    return sizes


def qp_parts(case):
    w = case.split()
    which = w[0][-1]
    stream = b'' if w[-2] == '-' else bytes.fromhex(w[-2])
    return which, stream, qp_pieces(len(stream), w[-1])


def qp_spec_ok(case, out):
    """the split into instructions, piece by piece, against the reference: every instruction is reported by the call that
    receives its last byte, not before, not twice, nothing is consumed beyond it; the real receive loop (R) consumes what
    the instruction decoders (P) consumed"""
    which, stream, sizes = qp_parts(case)
    ref, stop = r_instrs(stream, which)
    words = out.split()
    if words == ['init-err']:
        # the tables refuse only configurations beyond h3's own limits
        cw = case.split()
        return int(cw[1]) > CAP_MAX or (which == 'd' and int(cw[2]) >= BLOCKED_LIMIT)
    if not words or words[0] == 'panic' or 'panic' in words:
        return False
    ws = [x for x in words[1:] if not x.startswith('S:')]
    fed, consumed, k = 0, 0, 0
    for j, x in enumerate(ws):
        if j >= len(sizes):
            return False
        fed += sizes[j]
        if stop is not None and fed > stop:
            return True                         # the reference does not constrain the rest
        p, _, r = x.partition('/')
        pf = p.split(':')
        exp = []
        while k < len(ref) and ref[k][1] <= fed:
            exp.append(ref[k])
            k += 1
        used = (exp[-1][1] - consumed) if exp else 0
        if pf[:2] == ['P', 'err'] or len(pf) != 3:
            return False                        # an error where the reference reads well-formed (or merely cut) instructions
        if pf[1] != (';'.join(e[0] for e in exp) or '-') or int(pf[2]) != used:
            return False
        rf = r.split(':')
        if rf[:2] == ['R', 'ok']:
            if int(rf[3] if which == 'e' else rf[2]) != used:
                return False
        elif rf[:2] != ['R', 'err']:
            return False
        else:
            return words[0] == 'err' and j == len(ws) - 1     # a table-level error ends the run
        consumed += used
    return len(ws) == len(sizes) and words[0] == 'ok'


def qp_cuts(rng, n):
    style = rng.random()
    if n == 0 or style < 0.1:
        return '-'
    if style < 0.3:
        return '.'.join(['1'] * n)                              # every prefix of the stream is seen by a call
    if style < 0.4:
        return '%d' % rng.randint(0, n)
    out, left = [], n
    while left > 0:
        c = rng.choice([0, 1, 1, 1, 2, 2, 3, 4, 5, 7, 9, 12, 20, 40])
        out.append(c)
        left -= c
    return '.'.join(map(str, out))


def qp_mangle(rng, stream, firsts):
    """malformed / truncated variants of a valid stream; `firsts` = first octets that start an over-long integer"""
    m = rng.random()
    b = bytearray(stream)
    if m < 0.25 and len(b) > 1:
        return bytes(b[:rng.randint(1, len(b) - 1)])                               # truncated
    if m < 0.45:
        bad = bytes([rng.choice(firsts)]) + bytes([0xff] * rng.choice([9, 10, 12])) + bytes([rng.choice([0, 1, 0x7f])])
        return bytes(b) + bad + rb_(rng, rng.randint(0, 3))                         # integer with 10+ octets
    if m < 0.6 and b:
        i = rng.randrange(len(b))
        b[i] ^= 1 << rng.randrange(8)
        return bytes(b)                                                            # one flipped bit
    if m < 0.75:
        return bytes(b) + rb_(rng, rng.randint(1, 12))                             # garbage after valid instructions
    if m < 0.85:
        return rb_(rng, rng.randint(1, 24))                                        # garbage only
    return bytes(b) + bytes([rng.choice([0x61, 0x62, 0x81]), 0x83][:2]) + bytes([0xfe, 0xfe, 0xfe])[:rng.randint(0, 3)]


def rb_(rng, n):
    return bytes(rng.getrandbits(8) for _ in range(n))


def gen_qpe(rng, malformed=None):
    cap = rng.choice([4096, 4096, 4096, 4096, 1024, 256, 100, 64, 0])
    wild = rng.random() < 0.15              # indices / capacities the table will refuse
    ins, live = [], 0
    for _ in range(rng.randint(1, 9)):
        k = rng.random()
        v = rng.choice(VALUES[:10]) if rng.random() < 0.8 else rb_(rng, rng.randint(0, 40))
        if k < 0.35 or (live == 0 and 0.55 <= k < 0.85):
            ins.append(('IL', rng.choice(NAMES) if rng.random() < 0.8 else rb_(rng, rng.randint(0, 70)), v))
            live += 1
        elif k < 0.55:
            ins.append(('IS', rng.choice([99, 200, 16383]) if wild and rng.random() < 0.3 else rng.choice([0, 1, 15, 17, 62, 63, 64, 70, 98]), v))
            live += 1
        elif k < 0.7:
            ins.append(('ID', rng.choice([live, 63, 64, 1000]) if wild and rng.random() < 0.3 else rng.randint(0, live - 1), v))
            live += 1
        elif k < 0.85:
            ins.append(('U', rng.choice([live, 31, 32, 5000]) if wild and rng.random() < 0.3 else rng.randint(0, live - 1)))
            live += 1
        else:
            ins.append(('Z', rng.choice([0, 30, 31, 32, 100, 1 << 20, (1 << 30) - 1, 1 << 30, (1 << 62) - 1]) if wild else cap))
    stream = b''.join(w_einstr(i, rng) for i in ins)
    if malformed if malformed is not None else rng.random() < 0.35:
        stream = qp_mangle(rng, stream, [0x1f, 0x3f, 0x5f, 0x7f, 0xbf, 0xff, 0x80 + 0x3f])
    return 'qp.e %d %s %s' % (cap, stream.hex() or '-', qp_cuts(rng, len(stream)))


def gen_qpd(rng, malformed=None):
    cap = rng.choice([4096, 4096, 4096, 1024, 256, 64, 0])
    blocked = rng.choice([100, 100, 10, 5, 2, 1, 0])
    sid0 = rng.choice([0, 0, 100, 252, 16380, 1 << 20, (1 << 40) + 4])
    wild = rng.random() < 0.2               # acknowledgements of unknown streams, increments the table refuses
    eops, open_ = [], []
    for j in range(rng.randint(0, 5)):
        sid = sid0 + 4 * rng.randint(0, 2)
        # a fresh name per section: an insertion, hence a tracked section that an acknowledgement can release
        fs = [(b'x-%d' % j, rng.choice(VALUES[:6]))] + [(rng.choice(NAMES[:10]), rng.choice(VALUES[:6])) for _ in range(rng.randint(0, 2))]
        eops.append('E%d:%s' % (sid, '.'.join(fstr(f) for f in fs)))
        open_.append(sid)
    ins, acked = [], 0
    for _ in range(rng.randint(1, 8)):
        k = rng.random()
        if k < 0.4 and (open_ or wild):
            if open_ and not (wild and rng.random() < 0.3):
                ins.append(('A', open_.pop(0)))
                acked += 1
            else:
                ins.append(('A', rng.choice([0, 4, 126, 127, 128, 1000, 1 << 30, (1 << 62) - 1])))
        elif k < 0.6:
            ins.append(('X', rng.choice(open_) if open_ and rng.random() < 0.7 else rng.choice([0, 62, 63, 64, 5000, (1 << 62) - 1])))
        else:
            ins.append(('N', rng.choice([0, 62, 63, 64, 65, 200, 1 << 20]) if wild else rng.choice([1, 1, 1, 2, 3])))
    stream = b''.join(w_dinstr(i) for i in ins)
    if malformed if malformed is not None else rng.random() < 0.3:
        stream = qp_mangle(rng, stream, [0x3f, 0x7f, 0xff])
    return 'qp.d %d %d %s %s %s' % (cap, blocked, ','.join(eops) or '-', stream.hex() or '-', qp_cuts(rng, len(stream)))


# ---------------------------------------------------------------- families that drive the model through its rarely taken branches
CAP_MAX = (1 << 30) - 1          # dynamic.rs SETTINGS_MAX_TABLE_CAPACITY_MAX (set_max_size refuses more)
BLOCKED_LIMIT = 65535            # dynamic.rs SETTINGS_MAX_BLOCKED_STREAMS_MAX (set_max_blocked refuses this and more)


def maxv(nbits):
    """largest integer the crate's prefix_int::decode accepts behind an n-bit prefix (nine continuation octets)"""
    return (1 << nbits) - 1 + (1 << 63) - 1


def gen_limits():
    """deterministic: the configuration limits (init errors on both tables, set_dynamic_table_size above the maximum),
    decode_header on a section that was never emitted, the assertion of HeaderPrefix::new, and the usize additions of
    HeaderPrefix::get with an insert count at the top of the usize range (overflow checks are on in the harness build)"""
    out = []
    sec = 'E0:%s,I9,B0,K9' % fstr((b'a', b'b'))
    for cap, blocked in [(4096, BLOCKED_LIMIT - 1), (4096, BLOCKED_LIMIT), (4096, BLOCKED_LIMIT + 1), (4096, 1 << 32),
                         (CAP_MAX, 10), (CAP_MAX + 1, 10), (1 << 32, 10), (CAP_MAX + 1, BLOCKED_LIMIT), (0, BLOCKED_LIMIT)]:
        out.append('qx %d %d %s' % (cap, blocked, sec))
        out.append('qp.d %d %d %s %s 1' % (cap, blocked, 'E0:%s' % fstr((b'x-a', b'1')), (w_dinstr(('N', 1)) + w_dinstr(('A', 0))).hex()))
        out.append('qp.e %d %s 2' % (cap, w_einstr(('IL', b'a', b'b')).hex()))
    for z in [CAP_MAX - 1, CAP_MAX, CAP_MAX + 1, 1 << 32, (1 << 62) - 1]:
        out.append('qz 4096 10 E0:%s,Z%d,I9,B0,K9,E4:%s,I9,B1,K9' % (fstr((b'a', b'b')), z, fstr((b'a', b'c'))))
        out.append('qz 0 10 Z%d,E0:%s,I9,B0,K9' % (z, fstr((b'a', b'b'))))
    for j in [1, 2, 7, 1000]:
        out.append('qs 4096 10 B%d,E0:%s,B%d,I9,b%d,B0,K9,b%d' % (j, fstr((b'a', b'b')), j, j, j))
    for m in [32, 100, 128, 4096]:
        for t in [0, 1, 3, 9]:
            for r in [t + 1, t + 2, t + 100]:
                for b in [0, t, r]:
                    out.append('hp.new %d %d %d %d' % (r, b, t, m))
    top = (1 << 64) - 1
    for m in [32, 64, 128, 4096]:
        me = m // 32
        for t in [top, top - 1, top - me, top - 2 * me, top - 2 * me + 1, 1 << 63, (1 << 63) - 1]:
            for eic in sorted({0, 1, 2, me, me + 1, 2 * me, 2 * me + 1}):
                for sign, delta in [(0, 0), (0, 1), (0, 1 << 63), (1, 0), (1, (1 << 63) + 126)]:
                    out.append('hp.get %d %d %d %d %d' % (eic, sign, delta, t, m))
    # sign bit with a Delta Base around 2^63: the InvalidBase payload is computed in isize (`as isize` makes it negative)
    for m in [128, 4096]:
        for t in [1, 3, 10, 200]:
            for req in sorted({1, t}):
                eic = req % (2 * (m // 32)) + 1
                for delta in [(1 << 63) - 2, (1 << 63) - 1, 1 << 63, (1 << 63) + 1, (1 << 63) + req - 1, (1 << 63) + req,
                              (1 << 63) + req + 1, (1 << 63) + req + 2, maxv(7) - 1, maxv(7)]:
                    if delta <= maxv(7):
                        out.append('hp.get %d 1 %d %d %d' % (eic, delta, t, m))
    # encoded insert count 1 (Required Insert Count = a positive multiple of 2*max_entries) with fewer than max_entries insertions
    out += ['hp.get 1 0 0 0 128', 'hp.get 1 0 0 3 128', 'hp.get 1 1 0 0 64', 'hp.get 1 0 5 1 4096']
    return out


def gen_burst256(rng, k=None):
    """more insertions in ONE on_encoder_recv call than the u8 of InsertCountIncrement can carry: 255 is written (and refused
    by the encoder's parser, which stops at 64), 256 and more are answered with BufSize after the table has been updated"""
    k = k or rng.choice([255, 256, 257, rng.randint(258, 300)])
    if rng.random() < 0.5:
        # an honest encoder with room for k unacknowledged entries, one stream per section
        ops, n, j = [], 0, 0
        while n < k:
            nf = min(rng.choice([5, 6, 6, 7]), k - n)
            ops.append('E%d:%s' % (4 * j, '.'.join(fstr((bytes([97 + (n + x) // 26 % 26, 97 + (n + x) % 26]), b'')) for x in range(nf))))
            n += nf
            j += 1
        ops += [rng.choice(['I%d' % k, 'I400', 'i100000']), 'B0', 'K9', 'I9', 'B%d' % (j - 1), 'B1', 'K9']
        return 'qx %d %d %s' % (rng.choice([16384, 32768, 65536]), rng.choice([100, 1000]), ','.join(ops))
    ins = []
    for i in range(k):
        r = rng.random()
        if r < 0.7 or i == 0:
            ins.append(('IL', bytes([97 + i % 26]), b''))
        elif r < 0.8:
            ins.append(('IS', rng.choice([0, 1, 17, 98]), b'1'))
        elif r < 0.9:
            ins.append(('U', 0))
        else:
            ins.append(('ID', 0, b'2'))
    stream = b''.join(w_einstr(i, rng) for i in ins)
    cuts = rng.choice(['-', '-', '%d' % rng.randint(1, 40), '%d' % (len(stream) - rng.randint(1, 3)), '%d.%d' % (rng.randint(1, 9), len(stream))])
    return 'qp.e %d %s %s' % (rng.choice([4096, 4096, 1024, 100, 65536]), stream.hex(), cuts)


def gen_huff_padding(rng):
    """Huffman string literals whose padding is longer than seven bits: h3 accepts any run of one bits up to the end of the
    string (up to 29 bits), answers Unhandled once 30 one bits (EOS) are followed by another octet, MissingBits when a
    padding octet has a zero bit"""
    c15 = _c15()
    sym = bytes(rng.choice(b'a1/ex-:Z~') for _ in range(rng.choice([0, 0, 1, 2, 3])))
    payload = bytearray(c15.huff_encode(sym) + b'\xff' * rng.choice([1, 1, 2, 2, 3, 3, 4, 5, 6]))
    if rng.random() < 0.35:
        payload[-rng.randint(1, min(len(payload), 4))] &= 0xff ^ (1 << rng.randrange(8))
    payload = bytes(payload)
    if len(payload) > 30:
        payload = payload[:30]
    kind = rng.choice(['name', 'value', 'value-static'])
    if kind == 'name':
        one = w_int(5, 3, len(payload)) + payload + w_str(7, 0, b'v', True)
    elif kind == 'value':
        one = w_str(5, 1, b'n', True) + w_int(7, 1, len(payload)) + payload
    else:
        one = w_int(6, 3, rng.choice([0, 17, 63, 98])) + w_int(7, 1, len(payload)) + payload
    pre = w_einstr(('IL', b'x-a', b'1')) if rng.random() < 0.5 else b''
    post = w_einstr(('U', 0)) if rng.random() < 0.5 else b''
    stream = pre + one + post
    return 'qp.e %d %s %s' % (rng.choice([4096, 256, 64]), stream.hex(), qp_cuts(rng, len(stream)))


def hostile_rep(rng, total):
    """one hand-made field line representation: indices in range, at the borders, far beyond, and the largest the wire carries"""
    k = rng.choice(['S', 'S', 'D', 'D', 'D', 'P', 'P', 'LS', 'LD', 'LP', 'LL'])
    v = rng.choice(VALUES[:6])
    if k == 'S':
        return 'S%d' % rng.choice([0, 1, 17, 62, 63, 64, 97, 98, 98, 99, 99, 100, 1000, 1 << 40, maxv(6)])
    if k == 'D':
        return 'D%d' % rng.choice([0, 0, 1, 1, 2, 3, max(0, total - 1), total, total + 1, 62, 63, 64, 1 << 40, maxv(6)])
    if k == 'P':
        return 'P%d' % rng.choice([0, 0, 1, 1, 2, 3, total, 14, 15, 16, 1 << 40, maxv(4) - 200, maxv(4)])
    if k == 'LS':
        return 'LS%d=%s' % (rng.choice([0, 1, 14, 15, 16, 97, 98, 98, 99, 99, 100, 5000, maxv(4)]), v.hex())
    if k == 'LD':
        return 'LD%d=%s' % (rng.choice([0, 0, 1, 2, 3, total, 14, 15, 16, 1 << 40, maxv(4)]), v.hex())
    if k == 'LP':
        return 'LP%d=%s' % (rng.choice([0, 0, 1, 2, total, 6, 7, 8, 1 << 40, maxv(3) - 200, maxv(3)]), v.hex())
    return 'LL%s=%s' % (rng.choice(NAMES[:10]).hex(), v.hex())


def hostile_instr(rng, total, cap):
    k = rng.choice(['U', 'U', 'ID', 'ID', 'IS', 'IS', 'IL', 'Z'])
    v = rng.choice(VALUES[:8])
    if k == 'U':
        return 'JU%d' % rng.choice([0, 0, 1, max(0, total - 1), total, total + 1, 30, 31, 32, 1 << 40, maxv(5)])
    if k == 'ID':
        return 'JID%d=%s' % (rng.choice([0, 0, 1, max(0, total - 1), total, total + 1, 62, 63, 64, maxv(6)]), v.hex())
    if k == 'IS':
        return 'JIS%d=%s' % (rng.choice([0, 17, 63, 98, 98, 99, 99, 100, 4000, maxv(6)]), v.hex())
    if k == 'IL':
        # also entries larger than the whole table
        n = rng.choice(NAMES[:10]) if rng.random() < 0.6 else b'n' * rng.choice([1, 31, 32, 33, 70, 200])
        return 'JIL%s=%s' % (n.hex(), (v if rng.random() < 0.6 else b'v' * rng.choice([0, 1, 31, 32, 64, 200])).hex())
    return 'JZ%d' % rng.choice([0, 0, 1, 31, 32, 33, 64, cap, cap, cap + 1, max(0, cap - 1), 4096, 8192, CAP_MAX, CAP_MAX + 1, maxv(5)])


def gen_hostile(rng):
    """qx: a short honest history, then hand-made field sections (H) against the decoder table as it is - Encoded Insert
    Counts and bases that are right, off by one, wrapped, beyond 2*max_entries; static, relative and post-base indices in range,
    just outside, evicted, and so large that Base + index leaves the usize range - and hand-made encoder-stream instructions (J)
    mixed into the honest encoder stream: first ones the table accepts (the decoder table then differs from the encoder's),
    at the end ones it refuses (the comparison of a history ends with the first refused delivery)"""
    cap = rng.choice([0, 31, 32, 64, 70, 100, 128, 128, 256, 256, 1024, 4096, 4096])
    me = cap // 32
    ops, total, j = [], 0, 0
    n = [rng.randrange(600)]

    def fresh():
        n[0] += 1
        return (bytes([97 + (n[0] // 26) % 26, 97 + n[0] % 26]), rng.choice([b'', b'1', b'22']))
    for _ in range(rng.choice([0, 1, 1, 2, 3, 5, 8])):
        nf = rng.choice([1, 1, 2, 3])
        ops.append('E%d:%s' % (4 * j, '.'.join(fstr(fresh()) for _ in range(nf))))
        total += nf                      # an upper bound (nothing is inserted into a full or tiny table)
        r = rng.random()
        if r < 0.6:
            ops += ['I50', 'B%d' % j, 'K9']
        elif r < 0.8:
            ops += [rng.choice(['I1', 'i3', 'i7', 'I2'])]
        j += 1
    if rng.random() < 0.7:
        ops.append('I50')
    if rng.random() < 0.3 and cap >= 64:
        # instructions the decoder table accepts although the encoder never sent them
        for _ in range(rng.choice([1, 2, 3])):
            k = rng.random()
            if k < 0.3:
                ops.append('JIL%s=%s' % (rng.choice([b'zz', b'accept', b'y' * 20]).hex(), rng.choice(VALUES[:6]).hex()))
            elif k < 0.5:
                ops.append('JIS%d=%s' % (rng.choice([0, 17, 98]), rng.choice(VALUES[:6]).hex()))
            elif k < 0.7:
                ops.append('JZ%d' % rng.choice([cap, cap, 64, 100, max(32, cap // 2), 34]))
            else:
                ops += ['JIL7a=', rng.choice(['JU0', 'JID0=31', 'JU0', 'JU1'])]
            total += 2
        ops.append(rng.choice(['I50', 'I50', 'i400']))
    for _ in range(rng.choice([1, 2, 3, 4, 6])):
        # the prefix
        r = rng.random()
        req = rng.randint(1, max(1, total)) if r < 0.5 else rng.choice([0, total + 1, total + me, rng.randint(0, total + 3)])
        if r < 0.75 and me > 0:
            eic = 0 if req == 0 else req % (2 * me) + 1
        else:
            eic = rng.choice([0, 1, 2, 2 * me, 2 * me + 1, 2 * me + 2, rng.randint(0, 2 * me + 3), 255, 256, 1 << 40, maxv(8)])
        s = rng.random()
        if s < 0.6:
            sign, delta = 0, rng.choice([0, 0, 0, 1, 2, max(0, total - req)])
        elif s < 0.9:
            sign, delta = 1, rng.choice([0, 0, 1, 2, max(0, req - 1), req, req + 1, 126, 127, 128])
        else:
            sign, delta = rng.choice([(0, maxv(7)), (0, maxv(7) - 1), (0, 1 << 63), (1, maxv(7)), (0, 1 << 40), (1, 1 << 40),
                                      (1, (1 << 63) - 1), (1, 1 << 63), (1, (1 << 63) + req), (1, (1 << 63) + req + 1)])
        delta = min(delta, maxv(7))
        reps = [hostile_rep(rng, total) for _ in range(rng.choice([0, 1, 1, 2, 2, 3, 5]))]
        ops.append('H%d.%d.%d:%s' % (eic, sign, delta, ';'.join(reps)))
        if rng.random() < 0.2 and j > 0:
            ops.append('b%d' % rng.randrange(j))
    if rng.random() < 0.5:
        # instructions the table refuses (or not), delivered whole or in pieces
        for _ in range(rng.choice([1, 1, 2, 4])):
            ops.append(hostile_instr(rng, total, cap))
            if rng.random() < 0.6:
                ops.append(rng.choice(['I1', 'I50', 'i2', 'i5', 'i400']))
        ops.append('I50')
        if j > 0:
            ops.append('b%d' % rng.randrange(j))
    elif rng.random() < 0.5:
        # the honest pair goes on afterwards (the decoder table is untouched by H)
        ops += ['E%d:%s' % (4 * j, fstr(fresh())), 'I50', 'B%d' % j, 'K9']
    return 'qx %d %d %s' % (cap, rng.choice([0, 1, 100]), ','.join(ops))


def parse_case(case):
    w = case.split()
    ops = [o for o in w[3].split(',') if o]
    secs = []
    for o in ops:
        if o[0] == 'E':
            secs.append(o.split(':', 1)[1])
    return w[0], int(w[1]), int(w[2]), ops, secs


STATE_RE = re.compile(r'[td](\d+)\.(\d+)\.(\d+)\.(\d+)\.(\d+)')


class P(Property):
    id = 'C20'
    gen_modules = ['gen_static', 'gen_qpack', 'gen_prefixint', 'gen_huffman', 'gen_huffman_enc']
    properties_v = 'Properties/C20.v'
    model_targets = ['Model/QSystem.vo', 'Model/QWire.vo', 'Spec/RFC9204.vo']
    extract_v = 'Extract/ExtractC20.v'
    driver_ml = 'C20_driver.ml'
    harness_bin = 'c20'
    partial_note = ('C20_agreement is proved for every history of encodes, deliveries, honest or bare decodes and feedback deliveries with a '
                    'fixed capacity and fewer than 2^62 insertions; with Stream Cancellation or set_dynamic_table_size in the history the '
                    'statement is refuted by the model and the real code (C20_cancel_blocked_refuted, C20_capacity_with_resize_refuted); '
                    'instructions and representations are structured values in the agreement theorems; for the two instruction streams the '
                    'byte level is proved too (C20_parser_...: the parser model Model/QParse.v is self-delimiting on all inputs, inverts the '
                    'encoders of Model/QWire.v with exact consumption, answers Incomplete on every strict prefix, and parses any chunking of a '
                    'stream to exactly the instruction list, for integers in the prefix-int codec range, octet strings below 2^26 and '
                    'increments <= 64; InsertCountIncrement above 64 is written by the decoder and refused by the encoder: '
                    'C20_parser_increment_above_64_refuted); field-section bytes (block.rs) are compared on the wire in the correspondence '
                    'run only (their parsers are C11)')
    trusted_extra = ['verification hooks in /repo: qpack/verif/tables.rs (wrappers) and cfg(h3_verif) From<DynamicTable>/verif_table/'
                     'verif_snapshot items in encoder.rs, decoder.rs, dynamic.rs',
                     'HashMap/BTreeMap modelled as association lists; block_refs iteration order only matters on the (proved unreachable) '
                     'InvalidTrackingCount path',
                     'usize = 64 bit; overflow of insert counters (2^62 insertions) excluded by premise',
                     'static table rows are the generated ones (agreement with RFC 9204 App. A is C11)',
                     'prefix-int / Huffman string models of C15 (Model/PrefixInt.v, PrefixString.v, Huffman.v), on which the parser theorems rest',
                     'Model/QParse.v (instruction parsers and receive loops) is tied to stream.rs / parse_instruction / Action::parse by the qp.e / qp.d '
                     'families: the per-instruction decoders are reached through the wrappers parse_encoder_stream / parse_decoder_stream of '
                     'qpack/verif/tables.rs (which copy the first-octet dispatch and the loop), the real loops through on_encoder_recv / '
                     'on_decoder_recv on one contiguous buffer (both callers parse Cursor::new(read.chunk()), i.e. the first chunk only)',
                     'lib/props/c20.py reference splitter of RFC 9204 4.3 / 4.4 instruction streams (RFC 7541 5.1 integers, spec-data Huffman table) '
                     'used as the oracle of the qp families',
                     'hand-made sections / instructions (ops H, J of the qx family) are put on the wire by harness code (hostile_block / hostile_instr '
                     'in harness/src/bin/c20.rs, over the crate\'s prefix_int::encode / prefix_string::encode); the bytes are compared with wire_block / '
                     'wire_einstr of Model/QWire.v in every case']
    rule = ('qs: seeded histories of 1..40 field sections over alphabets of 1..4 names x 1..4 values drawn from 26 names / 18 values '
            '(static-table names incl. indices >= 63, full static matches, case / prefix / suffix / high-byte near-misses of static rows, '
            'names of 64 and values of 200 bytes), the big family (up to ~120 table entries, 125..270 insertions, bursts of 13..64 '
            'insertions per on_encoder_recv, relative / duplicate / name-reference indices with continuation bytes), capacities {0,1,31,32,33,...,4096} and random 0..4096, blocked limits {0,1,2,3,5,10,100} '
            'and random 0..100, 1..3 shared streams or one stream per section; schedules: immediate delivery, late delivery of '
            '0..5 encoder instructions at a time, bursts, no acknowledgements, stream cancellation, out-of-order decoding across '
            'streams, bare decode_header calls; every history ends with a full drain.  After every op the emitted wire '
            '(parsed back with the crate decoders), decode results and table state (inserted, dropped, curr_size, max_size, '
            'FNV digest of the table contents, reference counts, blocked count, blocked_streams map, known received count, per-stream block queue lengths) of impl and model are compared; the RFC 9204 reference decoder '
            'decides ok/blocked independently and decoded lists are compared with the original lists.  qc: the same with Stream '
            'Cancellation (a decoded list must still be the original list; an error instead of blocked is the known finding).  qz: the same with '
            'set_dynamic_table_size in the history (impl = model only).  hp.new / hp.get: prefix arithmetic on grids and random '
            'values.  qp.e / qp.d: raw encoder- / decoder-stream bytes handed to the receiver in pieces (tail of the previous call + next '
            'piece): 1..9 instructions of every kind (capacities, static / dynamic / duplicate indices and stream ids with 0..9 continuation '
            'octets, Huffman and raw string literals up to 200 octets, increments 0..2^20), cut at random places, at every octet, or not at '
            'all; a third of the streams truncated, bit-flipped, followed by garbage, by an integer of 10+ octets or by a Huffman string with '
            'bad padding; decoder tables of capacity 0..4096, encoders with 0..5 tracked sections.  Per piece the instructions and byte count '
            'returned by the crate decoders, the result / bytes consumed / bytes written / table state of the real on_encoder_recv / '
            'on_decoder_recv are compared with parse_all + the table model, and with the python reference splitter (every instruction is '
            'delivered by the call that receives its last octet, nothing is consumed beyond it).  '
            'qx (impl = model only, outside the quantifier): configuration limits (blocked limit 65534 / 65535, capacity 2^30-1 / 2^30 on both '
            'tables, set_dynamic_table_size above the maximum), decode_header on a section that was never emitted, 255 / 256 / 257..300 '
            'insertions in one on_encoder_recv call (histories and raw streams), Huffman literals with 8..48 bits of padding and with EOS, '
            'HeaderPrefix::new with required > total, HeaderPrefix::get with insert counts at the top of the usize range and Delta Bases '
            'around 2^63; hand-made field sections (op H: Encoded Insert Count right / off by one / wrapped / beyond 2*max_entries, both signs, '
            'Delta Base up to the largest integer the wire carries, 0..5 representations with static indices around 98/99, relative and '
            'post-base indices in range / at the border / evicted / up to 2^63) decoded against the table of a decoder after a short honest '
            'history, and hand-made encoder-stream instructions (op J: duplicates, name references, static indices, capacities, entries '
            'larger than the table) mixed into the honest encoder stream; the wire bytes the harness builds for H and J are compared with '
            'Model/QWire.v.  '
            'non-trivial = a history in which a section with a dynamic reference was decoded or reported blocked, or a qp case in which an '
            'instruction was parsed and more than one piece was handed over')

    def cases(self, tier, rng):
        out = []
        n = 1000 if tier == 'quick' else 40000
        for _ in range(n):
            out.append(gen_history(rng))
        for _ in range(n // 10):
            out.append(gen_history(rng, nsec=rng.randint(25, 40)))
        for _ in range(n // 10):
            out.append(gen_ahead(rng))
        for _ in range(max(12, n // 60)):
            out.append(gen_big(rng))
        for _ in range(n // 5):
            out.append(gen_history(rng, style='bytes'))
        for _ in range(n // 10):
            out.append(gen_history(rng, resize=True))
        for _ in range(n // 5):
            out.append(gen_history(rng, cancel=True, style='late'))
        # the instruction parsers on raw bytes: valid streams with random cuts, truncated and malformed streams
        for _ in range(n):
            out.append(gen_qpe(rng))
        for _ in range(n // 2):
            out.append(gen_qpd(rng))
        for _ in range(n // 10):
            out.append(gen_qpe(rng, malformed=True))
            out.append(gen_qpd(rng, malformed=True))
        # prefix arithmetic
        for m in [0, 1, 31, 32, 63, 64, 100, 128, 4096]:
            for t in range(0, 12):
                for r in range(0, t + 1):
                    for b in {0, r, t, max(0, r - 1), max(0, t - 1)}:
                        out.append('hp.new %d %d %d %d' % (r, b, t, m))
        for _ in range(500 if tier == 'quick' else 20000):
            m = rng.choice([32, 64, 100, 128, 256, 4096, rng.randint(32, 5000)])
            t = rng.randint(0, 600)
            r = rng.randint(0, t)
            b = rng.randint(0, t)
            out.append('hp.new %d %d %d %d' % (r, b, t, m))
            me = m // 32
            eic = rng.randint(0, 2 * me)
            t2 = rng.randint(0, 600)
            if eic == 0 or t2 >= 2 * me or (eic - 1) <= t2 % (2 * me) + me:    # only the underflow class (see corpus) is left out
                out.append('hp.get %d %d %d %d %d' % (eic, rng.randint(0, 1), rng.randint(0, 8), t2, m))
        # families that drive the model through rarely taken branches (tools/model_coverage.py): limits and init errors,
        # more than 255 insertions per call, over-long Huffman padding, hand-made sections and instructions
        out += gen_limits()
        for k in [255, 256, 257]:
            for _ in range(2):
                out.append(gen_burst256(rng, k))
        for _ in range(max(6, n // 100)):
            out.append(gen_burst256(rng))
        for _ in range(n // 5):
            out.append(gen_huff_padding(rng))
        for _ in range(n):
            out.append(gen_hostile(rng))
        return out

    def family(self, case):
        return case.split()[0]

    def canon(self, case, out):
        if case.startswith('qp.'):
            return out
        if case.startswith('hp.'):
            return 'panic' if out.startswith('panic') else out
        words = out.split()
        ws = []
        for w in words[1:]:
            ws.append(w)
            if w.startswith('B:'):
                continue
            if ':err' in w or 'panic' in w:
                break          # the state after an error is not compared
        return ' '.join(words[:1] + ws) if words and words[0] == 'ok' else ' '.join(['stopped'] + ws)

    def spec_ok(self, case, out, spec):
        fam = case.split()[0]
        if fam in ('qp.e', 'qp.d'):
            return qp_spec_ok(case, out)
        if fam == 'hp.get' and spec and spec.startswith('rfc-required') and out.startswith('ok'):
            return out.split()[1] == spec.split()[1]     # where the RFC reconstructs a value, h3 must reconstruct the same
        if fam in ('hp.new', 'hp.get'):
            return True
        if out.split()[:1] == ['init-err']:
            cw = case.split()
            return int(cw[1]) > CAP_MAX or int(cw[2]) >= BLOCKED_LIMIT      # only beyond h3's own limits
        if fam == 'qx':
            return True
        _, cap, blocked, ops, secs = parse_case(case)
        ow = out.split()[1:]
        sw = spec.split()[1:] if spec else []
        if fam == 'qs' and (len(ow) != len(ops)):
            return False       # an honest history never stops early (no error, no panic)
        done = set()
        resized = False
        for k, (o, w) in enumerate(zip(ops, ow)):
            s = sw[k] if k < len(sw) else '*'
            if o[0] in 'ik':
                o = o[0].upper() + o[1:]
            if o[0] == 'Z':
                resized = True
            if 'panic' in w and fam == 'qs':
                return False
            if o[0] in 'EIKZ' and ':err' in w and fam == 'qs':
                return False
            m = STATE_RE.search(w.split(':')[-1]) if o[0] in 'EIKZ' else None
            if m and not resized:
                ins, drop, curr, mx, n = map(int, m.groups())
                if curr > mx or drop > ins or n != ins - drop or mx != cap:
                    return False
            if o[0] in 'Bb':
                j = int(o[1:])
                if j >= len(secs):
                    if w != 'B:nosuch':
                        return False
                    continue
                if w in ('B:held', 'B:done'):
                    continue
                if resized:
                    continue
                if o[0] == 'b' and j in done:
                    continue      # a section that was acknowledged may legitimately have lost its entries
                orig = '.'.join(secs[j].split('.')) if secs[j] else '-'
                if w.startswith('B:ok:'):
                    if w.split(':')[2] != orig:
                        return False            # mis-decode
                    if o[0] == 'B':
                        done.add(j)
                elif fam == 'qc':
                    continue                    # with cancellations a section may be answered with an error (known finding)
                elif not w.startswith('B:blocked:'):
                    return False                # neither decoded nor blocked
                if s != '*' and fam != 'qc':
                    if s.startswith('B:ok:'):
                        if not w.startswith(s + ':') or s.split(':')[2] != orig:
                            return False
                    elif s.startswith('B:blocked:'):
                        if w != s:
                            return False
                    else:
                        return False            # the reference decoder rejects what the encoder emitted
        return True

    def extra_checks(self, ctx):
        """evidence histograms (side file notes/C20_histograms.json); no verdict of its own"""
        import json, os, collections
        h = collections.Counter()
        sizes = collections.Counter()
        caps = collections.Counter()
        qp = collections.Counter()
        for (c, i, m, s) in ctx['rows']:
            if not c.startswith('qp.'):
                continue
            which, stream, psizes = qp_parts(c)
            ref, stop = r_instrs(stream, which)
            ends = {e for _, e in ref}
            fed = 0
            for k0 in psizes[:-1]:
                fed += k0
                if 0 < fed < len(stream) and fed not in ends and (stop is None or fed < stop):
                    qp['pieces_ending_inside_an_instruction_' + which] += 1
            qp['streams_' + which] += 1
            qp['malformed_or_unsupported_streams_' + which] += stop is not None
            qp['streams_ending_inside_an_instruction_' + which] += stop is None and (ref[-1][1] if ref else 0) < len(stream)
            qp['instructions_parsed_' + which] += len(ref)
            qp['runs_ending_in_a_table_error_' + which] += i.startswith('err') and stop is None
        for k0, v0 in qp.items():
            h['qp_' + k0] = v0
        for (c, i, m, s) in ctx['rows']:
            if not c.startswith('q') or c.startswith('qp.'):
                continue
            w = c.split()
            ops = w[3].split(',')
            nsec = sum(1 for o in ops if o and o[0] == 'E')
            sizes['sections_%02d-%02d' % (nsec // 5 * 5, nsec // 5 * 5 + 4)] += 1
            cap = int(w[1])
            caps['cap_0' if cap == 0 else 'cap_1-31' if cap < 32 else 'cap_32-127' if cap < 128 else 'cap_128-1023' if cap < 1024 else 'cap_1024-4096'] += 1
            caps['blocked_0' if w[2] == '0' else 'blocked_1-3' if int(w[2]) <= 3 else 'blocked_4-100'] += 1
            ws = i.split()
            h['histories'] += 1
            h['with_eviction'] += any(re.match(r'[td]\d+\.[1-9]', x.split(':')[-1]) for x in ws if x[:1] in 'EIKZ')
            h['with_blocked_result'] += 'B:blocked' in i
            h['with_dynamic_ref_decoded'] += re.search(r'B:ok:[^ :]*:1:', i) is not None
            h['with_duplicate_instr'] += re.search(r'[:;]U\d', i) is not None
            h['with_dynamic_name_insert'] += re.search(r'[:;]ID\d', i) is not None
            h['with_relative_indexed'] += re.search(r'[:;]D\d', i) is not None
            h['with_literal_dynamic_name'] += re.search(r'[:;]LD\d', i) is not None
            h['with_literal_postbase_name'] += re.search(r'[:;]LP\d', i) is not None
            h['with_held_section'] += 'B:held' in i
            h['with_cancel'] += 'C:q' in i
            h['with_wrapped_insert_count'] += any((lambda mm: mm and int(mm.group(1)) > 0 and int(mm.group(2)) - 1 != int(mm.group(1)))(re.match(r'E:(\d+):(\d+)\.', x)) for x in ws)
            h['sections_decoded_ok'] += i.count('B:ok')
            h['sections_blocked'] += i.count('B:blocked')
            blocked = int(w[2])
            over = False
            for x in ws:
                mm = re.search(r'/(\d+)\.(\d+)\.[^/]*/[^/]*$', x)
                if mm and int(mm.group(1)) > blocked:
                    over = True
            h['observation_blocked_count_above_limit'] += over
        # coverage requirements of the in-scope family: the second wrap branch of HeaderPrefix::get (decoder ahead of an old
        # section's Required Insert Count across a multiple of 2*max_entries) and instructions cut by byte-granular delivery
        ahead = 0
        cut = 0
        cut_int = 0
        max_inc = 0
        mid_inc = 0
        big_idx = collections.Counter()
        for (c, i, m, s) in ctx['rows']:
            if not c.startswith('qs '):
                continue
            w = c.split()
            me = int(w[1]) // 32
            ops = [o for o in w[3].split(',') if o]
            ws = i.split()[1:]
            dec_ins, req = 0, []
            stream = b''
            handed = 0
            for o, x in zip(ops, ws):
                f = x.split(':')
                if o[0] == 'E' and len(f) > 7:
                    if f[6] != '-':
                        stream += bytes.fromhex(f[6])
                    for tok in f[4].split(';') + f[3].split(';'):
                        mm = re.match(r'(U|ID|IS|D|LD|LP|P)(\d+)', tok)
                        if mm:
                            v, k = int(mm.group(2)), mm.group(1)
                            lim = {'U': 31, 'ID': 63, 'IS': 63, 'D': 63, 'LD': 15, 'LP': 7, 'P': 15}[k]
                            if v >= lim:
                                big_idx[k] += 1
                if o[0] in 'Ii' and len(f) > 3:
                    mm = re.match(r'N(\d+)$', f[2])
                    if mm:
                        max_inc = max(max_inc, int(mm.group(1)))
                        mid_inc += 13 <= int(mm.group(1)) <= 64
                    bounds, ints = seg_encoder_stream(stream)
                    done = max(b0 for b0 in bounds if b0 <= handed)
                    if o[0] == 'i':
                        handed = min(len(stream), handed + int(o[1:]))
                        cut_int += any(a < handed < b for a, b in ints)
                    elif int(o[1:]) > 0:
                        k0 = bounds.index(done)
                        handed = bounds[min(len(bounds) - 1, k0 + int(o[1:]))]
                if o[0] == 'E' and len(f) > 2 and f[1].isdigit():
                    req.append(int(f[1]))
                elif o[0] in 'Ii' and len(f) > 2 and f[1].isdigit():
                    if o[0] == 'i' and int(f[1]) == dec_ins:
                        cut += 1
                    dec_ins = int(f[1])
                elif o[0] in 'Bb' and x.startswith('B:ok') and me >= 1:
                    j = int(o[1:])
                    if j < len(req) and 0 < req[j] < dec_ins and req[j] // (2 * me) < dec_ins // (2 * me):
                        ahead += 1
        h['decodes_ahead_across_wrap_boundary'] = ahead
        h['byte_deliveries_completing_no_insertion'] = cut
        h['byte_deliveries_ending_inside_a_multibyte_integer_of_an_encoder_instruction'] = cut_int
        h['largest_insert_count_increment'] = max_inc
        h['increments_13_to_64'] = mid_inc
        for k0, v0 in big_idx.items():
            h['indices_with_continuation_bytes_' + k0] = v0
        viol = []
        if ctx['rows'] and ahead == 0:
            viol.append(('coverage', {'message': 'no qs history decodes a section with the decoder ahead of its RIC across a 2*max_entries boundary'}))
        if ctx['rows'] and cut == 0:
            viol.append(('coverage', {'message': 'no qs history has a byte-granular delivery that ends before an insertion is complete'}))
        if ctx['rows'] and cut_int == 0:
            viol.append(('coverage', {'message': 'no byte-granular delivery ended inside a multi-byte integer of an encoder-stream instruction'}))
        if ctx['rows'] and max_inc < 63:
            viol.append(('coverage', {'message': 'no on_encoder_recv call delivered 63 or 64 insertions'}))
        for which in 'ed':
            if ctx['rows'] and not qp.get('pieces_ending_inside_an_instruction_' + which):
                viol.append(('coverage', {'message': 'no qp.%s case hands over a piece that ends inside an instruction' % which}))
            if ctx['rows'] and not qp.get('malformed_or_unsupported_streams_' + which):
                viol.append(('coverage', {'message': 'no qp.%s case carries a malformed instruction' % which}))
        for k0 in ('U', 'ID', 'IS', 'D', 'LD'):
            if ctx['rows'] and not big_idx.get(k0):
                viol.append(('coverage', {'message': 'no %s index with a continuation byte was generated' % k0}))
        try:
            os.makedirs(os.path.join(os.path.dirname(os.path.dirname(os.path.dirname(os.path.abspath(__file__)))), 'evidence'), exist_ok=True)
            with open(os.path.join(os.path.dirname(os.path.dirname(os.path.dirname(os.path.abspath(__file__)))), 'notes', 'C20_histograms.json'), 'w') as f:
                json.dump({'features': dict(h), 'sections_per_history': dict(sorted(sizes.items())), 'configurations': dict(sorted(caps.items()))}, f, indent=1)
        except OSError:
            pass
        return viol if len(ctx['rows']) > 100 else []

    def nontrivial_key(self, case, impl_out):
        if case.startswith('qp.'):
            # at least one instruction parsed and at least one call that had to keep an incomplete tail
            ws = impl_out.split()[1:]
            parsed = any(x.startswith('P:') and not x.startswith('P:-') and not x.startswith('P:err') for x in ws)
            return case if parsed and len(ws) > 1 else None
        if case.startswith('hp.'):
            return case if impl_out.startswith('ok') and not impl_out.startswith('ok 0 0') else None
        if re.search(r'B:ok:[^ :]*:1:', impl_out) or 'B:blocked' in impl_out:
            return case
        if re.search(r'B:w[0-9a-f]+:(ok:[^ :]*:1|err|blocked)', impl_out):
            return case           # a hand-made section that got past the prefix arithmetic
        return None

    def shrink_candidates(self, case):
        w = case.split()
        if w[0] in ('qp.e', 'qp.d'):
            out, hx_, cuts = [], w[-2], w[-1]
            if cuts != '-':
                out.append(w[:-1] + ['-'])
                cs = cuts.split('.')
                out += [w[:-1] + ['.'.join(cs[:k] + cs[k + 1:]) or '-'] for k in range(len(cs))][:30]
            if hx_ != '-':
                out.append(w[:-2] + [hx_[:-2] or '-', cuts])
                out.append(w[:-2] + [hx_[2:] or '-', cuts])
            if w[0] == 'qp.d' and w[3] != '-':
                es = w[3].split(',')
                out += [w[:3] + [','.join(es[:k] + es[k + 1:]) or '-'] + w[4:] for k in range(len(es))]
            return [' '.join(c) for c in out]
        if w[0] not in ('qs', 'qz', 'qc', 'qx'):
            return []
        ops = w[3].split(',')
        out = []
        # drop trailing ops, drop single non-E ops, drop single fields
        if len(ops) > 1:
            out.append(ops[:-1])
        for i, o in enumerate(ops):
            if o[0] != 'E':
                out.append(ops[:i] + ops[i + 1:])
            else:
                head, fs = o.split(':', 1)
                fl = [f for f in fs.split('.') if f]
                for k in range(len(fl)):
                    out.append(ops[:i] + [head + ':' + '.'.join(fl[:k] + fl[k + 1:])] + ops[i + 1:])
        return [' '.join(w[:3] + [','.join(c)]) for c in out[:120]]


PROP = P()
