"""C05: one connection error, seen everywhere, never lost between tasks."""
from core import Property


def perms(counts):
    """all distinct orderings of a multiset given as [(label, count)]"""
    total = sum(c for _, c in counts)
    counts = [[l, c] for l, c in counts]
    cur = []

    def rec():
        if len(cur) == total:
            yield ','.join(cur)
            return
        for lc in counts:
            if lc[1] > 0:
                lc[1] -= 1
                cur.append(lc[0])
                yield from rec()
                cur.pop()
                lc[1] += 1
    return rec()


def rand_perm(rng, counts):
    l = []
    for lab, c in counts:
        l += [lab] * c
    rng.shuffle(l)
    return ','.join(l)


def parse_result(out):
    w = out.split()
    if not w or w[0] != 'ok':
        return None
    d = {}
    for x in w[1:]:
        if '=' not in x:
            return None
        k, v = x.split('=', 1)
        d[k] = v
    return d


class P(Property):
    id = 'C05'
    gen_modules = ['gen_codes', 'gen_sharederr']
    properties_v = 'Properties/C05.v'
    model_targets = ['Model/SharedErr.vo', 'Model/SharedErrRun.vo', 'Spec/FirstErrorWins.vo']
    extract_v = 'Extract/ExtractC05.v'
    driver_ml = 'C05_driver.ml'
    harness_bin = 'c05'
    rule = ('every case runs the REAL driver (server::Connection / client::Connection over SimQuic) and 1..3 real handles on separate OS '
            'threads; the pre-emption callback hands a baton so that the order of the shared-state operations (driver: register, check; '
            'stream: store, wake) is exactly the schedule.  Enumerated: ALL schedules (orderings of the turns at the blocking points '
            'driver:before_register / after_register / after_check_none and stream:after_store; stream:after_wake does not block since only '
            'the return follows it) of one driver poll -- or two, each with a waker of its own -- with k raising tasks, for the poll shapes '
            'pce (poll_connection_error alone) and full (server poll_accept_request_stream / client poll_close: three '
            'poll_connection_error calls; the driver detecting an error of its own after the 2nd or 4th: control stream closed, second '
            'SETTINGS, missing SETTINGS, GOAWAY id increase, lost transport), both sides.  Raising handles / APIs: RequestStream read '
            '(poll_recv_data, recv_response, poll_recv_trailers) meeting CANCEL_PUSH, malformed GOAWAY, forbidden SETTINGS, a frame cut by '
            'FIN (UnexpectedEnd arm), a bad field section (QPACK 0x200, also in RequestResolver::resolve_request), a lost transport '
            '(application close / timeout / transport-internal); writes on a lost transport (send_data, send_trailers, finish, '
            'send_response); both halves of split(); SendRequest::send_request on a lost transport and the drop of the last SendRequest '
            '(H3_NO_ERROR); connection already closing (peer GOAWAY processed / own shutdown()) before the error.  k=1,2 exhaustively in '
            'quick (schedule sets above 20000 are sampled: none in quick); thorough adds k=3 (exhaustive for pce, 30000 seeded random '
            'schedules per full configuration), two scheduled polls for full, more kind combinations.  Every case first checks that each '
            'handle carries the driver\'s SharedState (pointer identity) and continues with later calls on every handle: driver polled '
            'again, driver shutdown() on the working transport, every stream handle reads then writes on the lost transport, driver shutdown() again, driver polled a last time; all close() '
            'calls are compared.  non-trivial = distinct cases in which a stream turn falls strictly between two driver turns')
    partial_note = ('memory ordering below the linearizability of OnceLock / AtomicWaker is trusted, not modelled; the driver is one task; '
                    'what a driver poll does between its poll_connection_error calls is abstracted to: more such calls, at most one '
                    'self-detected error, then Pending / Ready; shutdown() is its leading get_conn_error guard followed by a GOAWAY write that '
                    'the transport accepts or refuses (scheduled interleavings of shutdown itself are proved, not run: it has no '
                    'pre-emption point)')
    trusted_extra = ['std::sync::OnceLock::get_or_init and futures_util AtomicWaker::{register, wake} are atomic (linearizable) operations',
                     'the harness scheduler (baton over Mutex+Condvar, one OS thread per task) and SimQuic',
                     'gen_sharederr.py: every statement of the anchored functions and every match arm must full-match a known shape at brace '
                     'depth 0 (anything else is AnchorLost = violation); call sites of set_conn_error / the cell / the waker and every '
                     'initialiser of a shared-state field are enumerated crate-wide (h3, h3-datagram, h3-webtransport)']

    def configs(self, tier):
        """(side, drv, np, derr, loss, closing, k, serr)"""
        out = []
        T = tier == 'thorough'
        for side in ('srv', 'cli'):
            S = side == 'srv'
            for drv in ('pce', 'full'):
                F = drv == 'full'
                base = [('-', '-', 1, 'fu'), ('-', 'x777', 1, 'l'),
                        ('-', '-', 2, 'fu,fe'), ('-', 'x777', 2, 'l,fe'), ('-', 'i', 2, 'l,se')]
                if not F or T:
                    base += [('-', '-', 2, 'se,fu'), ('-', 't', 2, 'fu,l')]
                if F:
                    base += [('ccs', '-', 1, 'fu'), ('ccs', '-', 2, 'fu,fe')]
                    if T:
                        base += [('c2s', '-', 2, 'fe,se')]
                if T:
                    base += [('-', '-', 3, 'fu,fe,se'), ('-', 'i', 3, 'fe,l,fu'), ('-', 'x300', 3, 'l,se,l'),
                             ('-', 'x300', 3, 'xfu,xw,qp'), ('-', '-', 3, 'ue,tfu,qp')]
                    if F:
                        base += [('ccs', '-', 3, 'fu,fe,se')]
                for derr, loss, k, serr in base:
                    out.append((side, drv, 1, derr, loss, '-', k, serr))
                # the UnexpectedEnd arm; other codes (QPACK 0x200, H3_NO_ERROR 0x100 from the last SendRequest drop,
                # MISSING_SETTINGS, ID_ERROR on the driver's side); other raising handles and APIs
                fam = [('-', '-', 1, 'ue')]
                if not F or T:
                    fam += [('-', '-', 2, 'ue,fu'), ('-', '-', 2, 'qp,fu'), ('-', '-', 2, 'tfu,fe'),
                            ('-', 'x777', 2, 'wd,wt'), ('-', 'x777', 2, 'wf,wr' if S else 'wf,l'),
                            ('-', 'x777', 2, 'xfu,xw'), ('-', 't', 2, 'xw,xl')]
                    fam += [('-', 'x777', 2, 'fu,wf'), ('-', 'x777', 2, 'fu,wt'), ('-', 'x777', 2, 'fu,wd'),
                            ('-', 'x777', 2, 'fu,wr' if S else 'fu,rq')]
                    if not S:
                        fam += [('-', '-', 2, 'dr,fu'), ('-', 'x777', 2, 'rq,l'), ('-', 't', 2, 'rq,rq')]
                if F:
                    fam += [('cms', '-', 1, 'fu'), ('cid', '-', 1, 'fu'), ('-', 'x777', 1, 'xw'), ('-', '-', 1, 'qp'),
                            ('2cs', '-', 1, 'fe'), ('cfe', '-', 1, 'fu'), ('-', 'x256', 1, 'l'), ('-', 'x256', 1, 'fu')]
                    if not S:
                        fam += [('cpp', '-', 1, 'fe'), ('cbi', '-', 1, 'fe')]
                    if not S:
                        fam += [('-', '-', 1, 'dr')]
                    if T:
                        fam += [('cms', '-', 2, 'fu,qp'), ('cid', '-', 2, 'fe,fu')]
                for derr, loss, k, serr in fam:
                    out.append((side, drv, 1, derr, loss, '-', k, serr))
                # the connection is already shutting down when the error is raised
                for closing in ('goaway', 'shutdown'):
                    cl = [('-', '-', 1, 'fu')] if F else [('-', '-', 2, 'fu,fe')]
                    if T:
                        cl += [('-', 'i', 2, 'l,se'), ('-', '-', 2, 'qp,ue')]
                    for derr, loss, k, serr in cl:
                        out.append((side, drv, 1, derr, loss, closing, k, serr))
                # two scheduled driver polls (the second with a waker of its own)
                two = [('-', '-', 1, 'fu')]
                if not F:
                    two += [('-', '-', 2, 'fu,fe')]
                if T:
                    two += [('-', 'x777', 2, 'l,fe')] + ([('-', '-', 2, 'fu,fe')] if F else [])
                for derr, loss, k, serr in two:
                    out.append((side, drv, 2, derr, loss, '-', k, serr))
        return out

    def cases(self, tier, rng):
        out = []
        for side, drv, np_, derr, loss, closing, k, serr in self.configs(tier):
            own = drv == 'full' and (derr != '-' or loss != '-')
            if drv == 'pce':
                nd = 4 * np_ - (np_ - 1)
            elif derr == 'cid' and loss == '-':
                nd = 13
            elif derr == 'cbi' and loss == '-':
                nd = 10
            elif own:
                nd = 7
            else:
                nd = 10 * np_ - (np_ - 1)
            counts = [('D', nd)] + [('S%d' % (i + 1), 2) for i in range(k)]
            head = 'err side=%s drv=%s np=%d derr=%s loss=%s closing=%s k=%d serr=%s sched=' % (
                side, drv, np_, derr, loss, closing, k, serr)
            total = nd + 2 * k
            import math
            nperm = math.factorial(total) // (math.factorial(nd) * 2 ** k)
            if nperm > 20000:
                seen = set()
                for _ in range(30000 if k == 3 else 20000):
                    seen.add(rand_perm(rng, counts))
                for s in sorted(seen):
                    out.append(head + s)
            else:
                for s in perms(counts):
                    out.append(head + s)
        return out

    def spec_ok(self, case, out, spec):
        if spec is None:
            return True
        o = parse_result(out)
        if o is None:
            return False
        # the spec column lists the admissible outcomes (one unless the driver can detect an error of its own)
        return any(self.matches(o, parse_result(cand.strip())) for cand in spec.split(';;'))

    def matches(self, o, s):
        if s is None:
            return False
        x = s['d2']
        # every handle reports the single outcome, on every later call; close exactly as the outcome demands
        for key in ('keys', 's1', 'd2', 'd2s', 's2', 's3', 'd4', 'd3', 'close'):
            if s[key] != '*' and o.get(key) != s[key]:
                return False
        # the scheduled driver poll either reports the outcome or parks -- then it must have been woken
        if o.get('d1') == 'pending':
            return o.get('woken') == '1'
        return o.get('d1') == x

    def nontrivial_key(self, case, impl_out):
        sched = case.split('sched=')[1].split(',')
        ds = [i for i, t in enumerate(sched) if t == 'D']
        if len(ds) >= 2 and any(t != 'D' for t in sched[ds[0]:ds[-1]]):
            return case
        return None

    def shrink_candidates(self, case):
        head, sched = case.split('sched=')
        s = sched.split(',')
        return [head + 'sched=' + ','.join(s[:i] + s[i + 1:]) for i in range(len(s)) if len(s) > 1]


PROP = P()
