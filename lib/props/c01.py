"""C01: end-to-end message fidelity (linked pair: real h3 client against real h3 server over two SimQuic worlds)."""
from core import Property, spec_match


def hx(b):
    if isinstance(b, str):
        b = b.encode('latin-1')
    return b.hex() if b else '-'


METHODS = [b'GET', b'POST', b'PUT', b'DELETE', b'HEAD', b'OPTIONS', b'PATCH', b'TRACE', b'PROPFIND', b'M-SEARCH',
           b'X', b"a!#$%&'*+-.^_`|~9", b'get', b'QUERY', b'VERYLONGEXTENSIONMETHODNAME']
SCHEMES = [b'https', b'https', b'http', b'http', b'foo', b'coap+tcp', b'a1.b-c']
AUTHS = [b'example.com', b'example.com:8443', b'user:pw@host.example:81', b'[::1]:443', b'[2001:db8::1]',
         b'127.0.0.1', b'EXAMPLE.Com', b'a', b'xn--bcher-kva.example:1', b'h:0', b'sub.domain.example.org:65535']
PATHS = [b'', b'/', b'/a/b', b'/a%20b/c?x=1&y=2', b'?q=1', b'/?', b'/*', b'/a;b=c', b"/~user/!$&'()*+,;=:@",
         b'/Index.HTML', b'/UPPER/lower?Q=A', b'/' + b'seg/' * 60 + b'end', b'/q?' + b'k=v&' * 80, b'//double//slash',
         b'/a?b?c', b'/%7e%2F', b'/x?']
NAMES = [b'accept', b'x-dup', b'X-Dup', b'cookie', b'set-cookie', b'content-type', b'user-agent', b'x-empty', b'a',
         b'x-' + b'n' * 90, b"x!#$%&'*+-.^_`|~", b'Accept-Encoding', b'x-dup', b'te', b'via', b'x-1', b'cache-control',
         b'authorization', b'if-none-match', b'date', b'etag', b'link', b'content-length']
VALUES = [b'', b'v', b'a b c', b'  lead', b'trail  ', b'tab\there', bytes(range(0x80, 0x100)), b'x' * 300, b'a,b;c=d',
          b'"quoted"', b'*/*', b'gzip, deflate, br', b'text/html; charset=utf-8', b'\xe2\x82\xac', b'0', b'1', b'W/"abc"',
          b'Mon, 01 Jan 2024 00:00:00 GMT', b'~', b' ', b'\t']
STATUSES = [200, 200, 204, 404, 500, 100, 103, 999, 101, 304, 206, 301, 418, 599, 600]


def gen_fields(rng, maxn):
    n = rng.choice([0, 1, 2, 3, 5, maxn])
    out = []
    for _ in range(n):
        name = rng.choice(NAMES)
        if name == b'content-length':
            val = str(rng.randint(0, 99999)).encode()
        else:
            val = rng.choice(VALUES)
            if rng.random() < 0.15:
                val = bytes(rng.choice([9] + list(range(32, 127)) + list(range(128, 256))) for _ in range(rng.randint(0, 40)))
        out.append((name, val))
    return out


def show_fields(fs):
    return ';'.join('%s=%s' % (hx(n), hx(v)) for n, v in fs) or '-'


def gen_body(rng, cap):
    """returns the body spec string"""
    r = rng.random()
    if r < 0.2:
        return 'n'
    if r < 0.25:
        return 'e'
    sizes_pool = [0, 1, 2, 5, 62, 63, 64, 65, 100, 1000, 16383, 16384, 16385, 20000, 40000]
    pieces = []
    total = 0
    npieces = rng.choice([1, 1, 2, 3, 4, 6, rng.randint(7, 40)])
    for _ in range(npieces):
        if npieces > 6:
            sz = rng.choice([0, 1, 2, 3, 7, 64])
        else:
            sz = rng.choice(sizes_pool + [rng.randint(0, 300), rng.randint(0, 70000)])
        if total + sz > cap:
            sz = max(0, cap - total)
        total += sz
        if sz == 0:
            pieces.append('e')
        elif sz <= 24 and rng.random() < 0.7:
            pieces.append(bytes(rng.getrandbits(8) for _ in range(sz)).hex())
        else:
            pieces.append('g%ds%d' % (sz, rng.randint(0, 999999)))
    return '.'.join(pieces)


def gen_trailers(rng):
    r = rng.random()
    if r < 0.55:
        return 'n'
    if r < 0.62:
        return '-'
    names = [b'x-trail', b'x-trail', b'X-Trail', b'digest', b'server-timing', b'x-t2', b'etag']
    fs = [(rng.choice(names), rng.choice(VALUES)) for _ in range(rng.randint(1, 4))]
    return show_fields(fs)


def gen_request_head(rng):
    method = rng.choice(METHODS)
    fields = gen_fields(rng, 12)
    form = rng.random()
    if form < 0.6:  # absolute form
        s, a, p = rng.choice(SCHEMES), rng.choice(AUTHS), rng.choice(PATHS)
        if rng.random() < 0.25:
            fields.insert(rng.randint(0, len(fields)), (rng.choice([b'host', b'Host']), a))
        fields = [f for f in fields if f[0].lower() != b'host' or f[1] == a]
        return method, hx(s), hx(a), hx(p) if p else (rng.choice(['-', '-'])), fields
    if form < 0.75:  # authority form
        a = rng.choice(AUTHS)
        if rng.random() < 0.5:
            method = b'CONNECT'
        fields = [f for f in fields if f[0].lower() != b'host']
        return method, '-', hx(a), '-', fields
    # origin form (needs Host)
    p = rng.choice([x for x in PATHS if x.startswith(b'/')])
    a = rng.choice(AUTHS)
    fields = [f for f in fields if f[0].lower() != b'host']
    fields.insert(rng.randint(0, len(fields)), (rng.choice([b'host', b'Host', b'HOST']), a))
    if method == b'OPTIONS' and rng.random() < 0.5:
        p = b'*'
    return method, '-', '-', hx(p), fields


def gen_split(rng):
    """where one side splits its request stream: never / before any call / after its send side finished / after the
    head was received / after k recv_data calls returned data / after recv_data said end, before recv_trailers"""
    return rng.choice(['n', 'n', 'b', 'f', 'h', 'm1', 'm%d' % rng.randint(2, 6), 'e', 'e'])


def unhx(h):
    return b'' if h in ('-', 'e') else bytes.fromhex(h)


def parse_fields_hex(fs):
    if fs in ('-', 'n'):
        return []
    return [(unhx(f.split('=')[0]), unhx(f.split('=')[1])) for f in fs.split(';')]


def section_size(fields):
    """RFC 9114 4.2.2"""
    return sum(len(n) + len(v) + 32 for n, v in fields)


def request_section(m, s, a, p, proto, fields):
    """the field lines Header::request + HeaderIter emit (s, a, p: hex or '-')"""
    out = [(b':method', m)]
    plain_connect = (m == b'CONNECT' and proto is None)
    if not plain_connect:
        out.append((b':scheme', unhx(s) if s != '-' else b'https'))
    if a != '-':
        out.append((b':authority', unhx(a)))
    if not plain_connect:
        out.append((b':path', unhx(p) if p != '-' and unhx(p) else b'/'))
    if m == b'CONNECT' and proto is not None:
        out.append((b':protocol', PROTOS[proto]))
    return out + list(fields)


PROTOS = {'wt': b'webtransport', 'udp': b'connect-udp', 'ip': b'connect-ip', 'ws': b'websocket'}


def gen_exchange(rng, cap, path_prefix=None):
    """(msg string, resp string, request section size incl. trailers max, response section size incl. trailers max, proto)"""
    m, s, a, p, fields = gen_request_head(rng)
    proto = None
    if path_prefix is not None:
        # the server routes on the first path segment; keep the target form, replace the path
        if m == b'CONNECT' and s == '-':
            m = b'POST'
        tail = rng.choice([x for x in PATHS if x.startswith(b'/') or x.startswith(b'?') or x == b''])
        if p != '-' or s == '-' and a == '-':
            p = hx(path_prefix + tail)
        else:
            # authority form has no path: use the absolute form instead
            s, p = hx(b'https'), hx(path_prefix + tail)
        if p == hx(b'*'):
            p = hx(path_prefix)
    elif m == b'CONNECT' and s != '-' and rng.random() < 0.7:
        proto = rng.choice(sorted(PROTOS))
    elif s != '-' and rng.random() < 0.04:
        m, proto = b'CONNECT', rng.choice(sorted(PROTOS))
    qt, rt = gen_trailers(rng), gen_trailers(rng)
    rfields = gen_fields(rng, 10)
    status = rng.choice(STATUSES + [rng.randint(100, 999)])
    msg = '%s,%s,%s,%s,%s,%s,%s' % (hx(m), s, a, p, show_fields(fields), gen_body(rng, cap), qt)
    resp = '%d,%s,%s,%s' % (status, show_fields(rfields), gen_body(rng, cap), rt)
    qsize = max(section_size(request_section(m, s, a, p, proto, fields)), section_size(parse_fields_hex(qt)))
    rsize = max(section_size([(b':status', b'200')] + rfields), section_size(parse_fields_hex(rt)))
    return msg, resp, qsize, rsize, proto


def gen_pacing(rng, heavy):
    wire = rng.choice(['1', 'f2', 'f3', 'f7', 'r4', 'r16', 'r64', 'r1500', 'r20000', 'big', 'big'])
    budget = rng.choice(['u', 'u', 'u', '1', '2', '3', '5', '8', 'r4', 'r16', 'r1200', 'r30000'])
    slow = wire in ('1', 'f2', 'f3', 'f7', 'r4') or budget in ('1', '2', '3', '5', '8', 'r4')
    if heavy:
        cap = 65536
    elif slow:
        cap = rng.choice([0, 10, 200, 3000])
    else:
        cap = rng.choice([0, 100, 5000, 65536])
    return wire, budget, cap


TCHARS = b"abcdefghijklmnopqrstuvwxyz0123456789!#$%&'*+-.^_`|~"


def rand_name(rng):
    return b'x-' + bytes(rng.choice(TCHARS) for _ in range(rng.randint(1, 24)))


def rand_value(rng, n):
    style = rng.random()
    if style < 0.5:
        alpha = b'abcdefghijklmnopqrstuvwxyzABCDEFGHIJKLMNOPQRSTUVWXYZ0123456789 ,;=/-_.'
    elif style < 0.8:
        alpha = bytes([9] + list(range(32, 127)))
    else:
        alpha = bytes(list(range(32, 127)) + list(range(128, 256)))
    return bytes(rng.choice(alpha) for _ in range(n))


def gen_bigsec(rng, quick):
    """a field section of 8..64 KiB (RFC 9114 4.2.2 measure) in the request head, the response head or a trailer section:
    either 100..400 field lines, or a few values of 1..40 KiB; h3's own default limits (lim=h,h) most of the time"""
    where = rng.choice(['q', 'r', 'qt', 'rt'])
    if rng.random() < 0.5:
        target = rng.randint(8, 18 if quick else 64) * 1024
        fs, size = [], 0
        names = [rand_name(rng) for _ in range(rng.randint(3, 60))]
        while size < target:
            n, v = rng.choice(names), rand_value(rng, rng.randint(0, 200))
            fs.append((n, v))
            size += len(n) + len(v) + 32
    else:
        fs = [(rand_name(rng), rand_value(rng, rng.choice([1024, 4096, 16300, 16384, 17000, 30000, 40960])))
              for _ in range(rng.randint(1, 3))]
        while section_size(fs) > 62 * 1024:
            fs.pop()
        fs += [(rand_name(rng), rand_value(rng, rng.randint(0, 50))) for _ in range(rng.randint(0, 5))]
        if section_size(fs) < 8192:
            fs.append((rand_name(rng), rand_value(rng, 9000)))
    big = show_fields(fs)
    small = show_fields(gen_fields(rng, 3))
    body = rng.choice(['n', 'g%ds%d' % (rng.randint(1, 2000), rng.randint(0, 999999))])
    msg = '%s,%s,%s,%s,%s,%s,%s' % (hx(b'POST'), hx(b'https'), hx(b'big.example'), hx(b'/big'),
                                    big if where == 'q' else small, body, big if where == 'qt' else 'n')
    resp = '200,%s,%s,%s' % (big if where == 'r' else small, body, big if where == 'rt' else 'n')
    line = 'e2e msg=%s resp=%s wire=%s budget=%s sched=%s split=%s,%s' % (
        msg, resp, rng.choice(['big', 'r1500', 'r20000', 'f7']), rng.choice(['u', 'u', 'r1200', 'r30000']),
        rng.choice('xxwu') + str(rng.randint(0, 10 ** 6)), gen_split(rng), gen_split(rng))
    r = rng.random()
    if r < 0.6:
        line += ' lim=h,h'
    elif r < 0.8:
        sz = section_size(fs) + 400
        line += ' lim=%d,%d' % (sz, sz)
    if rng.random() < 0.3:
        line += ' plain=1'
    if rng.random() < 0.5:
        line += ' seg=%d' % rng.randint(1, 10 ** 6)
    return line


def gen_case(rng, tier, heavy):
    wire, budget, cap = gen_pacing(rng, heavy)
    msg, resp, qsize, rsize, proto = gen_exchange(rng, cap)
    sched = rng.choice('uwx') + str(rng.randint(0, 10 ** 6))
    line = 'e2e msg=%s resp=%s wire=%s budget=%s sched=%s split=%s,%s' % (msg, resp, wire, budget, sched,
                                                                          gen_split(rng), gen_split(rng))
    if rng.random() < 0.12:
        line += ' grease=1'
    if proto is not None:
        line += ' proto=' + proto
    if rng.random() < 0.5:
        # the transport hands h3 non-contiguous buffers, the application hands send_data a chained one
        line += ' seg=%d' % rng.randint(1, 10 ** 6)
    if rng.random() < 0.15:
        ifields = gen_fields(rng, 4)
        rsize = max(rsize, section_size([(b':status', b'103')] + ifields))
        line += ' interim=%d,%s' % (rng.choice([100, 102, 103, 103, 199]), show_fields(ifields))
    if rng.random() < 0.3:
        line += ' drv=idle'        # the client driver is `wait_idle()` instead of a poll_close loop
    if rng.random() < 0.15:
        line += ' fz=%d' % rng.randint(1, 4)   # the transport answers poll_finish with Pending a few times
    r = rng.random()
    if r < 0.2:
        line += ' plain=1'         # client::new / server::Connection::new: no builder setter is called
    elif r < 0.4:
        line += ' lim=h,h'         # h3's own default limits
    elif r < 0.6:
        # non-default limits on the field-section size each side announces and enforces: at or above what is sent
        d = lambda: rng.choice([0, 0, 1, 57, 4096])
        line += ' lim=%s,%s' % (rng.choice(['d', 'h', str(rsize + d()), str(rsize + d())]),
                                rng.choice(['d', 'h', str(qsize + d()), str(qsize + d())]))
    return line


def gen_heavy(rng):
    """a long body (20000..65536 bytes) under byte-wise delivery and/or byte-wise write budgets"""
    wire, budget = rng.choice([('1', 'u'), ('f2', 'u'), ('f3', '2'), ('r4', 'u'), ('big', '1'), ('big', '3'), ('1', '1'),
                               ('r64', '2'), ('f7', 'r4')])
    big = 'g%ds%d' % (rng.choice([20000, 40000, 65536, 65536]), rng.randint(0, 999999))
    small = rng.choice(['n', 'g%ds%d' % (rng.randint(1, 300), rng.randint(0, 999999))])
    qb, rb = (big, small) if rng.random() < 0.5 else (small, big)
    line = ('e2e msg=%s,%s,%s,%s,-,%s,%s resp=200,-,%s,%s wire=%s budget=%s sched=%s split=%s,%s' %
            (hx(b'POST'), hx(b'https'), hx(b'h.example'), hx(b'/heavy'), qb, gen_trailers(rng), rb, gen_trailers(rng),
             wire, budget, rng.choice('uwx') + str(rng.randint(0, 10 ** 6)), gen_split(rng), gen_split(rng)))
    if rng.random() < 0.5:
        line += ' seg=%d' % rng.randint(1, 10 ** 6)
    return line


def gen_multi(rng):
    """several exchanges on one connection, through original / cloned / dropped SendRequest handles"""
    mode = rng.choice(['seq', 'seq', 'ovl', 'ovl', 'cd', 'cd', 'cb', 'dh'])
    n = 1 if mode == 'dh' else rng.choice([2, 3, 3])
    wire, budget, cap = gen_pacing(rng, False)
    cap = min(cap, 3000)
    xs = []
    for k in range(n):
        msg, resp, _, _, _ = gen_exchange(rng, cap, path_prefix=b'/%d' % k)
        xs.append('x%d=%s|%s' % (k, msg, resp))
    line = 'multi mode=%s n=%d %s wire=%s budget=%s sched=%s' % (mode, n, ' '.join(xs), wire, budget,
                                                                 rng.choice('uwx') + str(rng.randint(0, 10 ** 6)))
    if rng.random() < 0.12:
        line += ' grease=1'
    if rng.random() < 0.5:
        line += ' seg=%d' % rng.randint(1, 10 ** 6)
    if rng.random() < 0.3:
        line += ' drv=idle'
    if rng.random() < 0.2:
        line += ' plain=1'
    return line


class P(Property):
    id = 'C01'
    gen_modules = ['gen_varint', 'gen_codes', 'gen_headers', 'gen_datagram', 'gen_writers', 'gen_frames', 'gen_reqstream',
                   'gen_static', 'gen_qstateless', 'gen_prefixint', 'gen_huffman', 'gen_huffman_enc', 'gen_split', 'gen_buflist', 'gen_msgpath']
    properties_v = 'Properties/C01.v'
    model_targets = ['Model/EndToEndH3.vo', 'Model/EndToEndRef.vo', 'Spec/EndToEndSpec.vo']
    extract_v = 'Extract/ExtractC01.v'
    driver_ml = 'C01_driver.ml'
    harness_bin = 'c01'
    rule = ('linked pair: a real h3 client (driver + SendRequest) and a real h3 server on two SimQuic endpoints; seeded '
            'messages (standard and extension methods, absolute / authority / origin form targets with ports, userinfo, '
            'IPv6 literals and queries, header multisets with duplicate and mixed-case names, empty and opaque values, bodies '
            '0..64 KiB in 0..40 send pieces incl. empty ones, with/without/empty trailers, both directions) x wire deliveries '
            'of 1 byte / fixed / random / everything x write budgets of 1..8 bytes / random / unlimited x seeded schedules '
            '(uniform, weighted, strict-priority over client tasks, server tasks, deliveries per direction and stream, '
            'grants) x request streams whole or split into halves driven by separate tasks, the split point chosen per side '
            '(before any call, after the send side finished, after the head, after k recv_data calls, after end-of-body '
            'before recv_trailers) x grease on/off x contiguous / multi-segment transport and send buffers x default / '
            'exact / larger field-section limits x optional 1xx interim response x extended CONNECT (:protocol); family multi: '
            '1..3 exchanges on one connection through the original, cloned and early-dropped SendRequest handles, sequential '
            'and overlapping, run to quiescence (a driver or accept loop that ended is an error); 6 heavy cases per run '
            '(20..64 KiB bodies under byte-wise wire/budget) drawn afresh on every run; family bigsec: field sections of '
            '8..64 KiB (100..400 lines, or values of 1..40 KiB) in request head, response head or a trailer section, mostly '
            'under h3 default limits; options: lim=h (limit setter not called), plain=1 (no builder setter; server through '
            'Connection::new), drv=idle (client driven by wait_idle()), fz=n (poll_finish Pending n times). non-trivial = distinct cases whose exchange completed '
            'and carried at least one field, body byte or trailer in some direction')
    partial_note = ('C01_request_fidelity / C01_response_fidelity are closed and every layer of their pipeline is the model of h3 code '
                    'owned by another property (C12 header mapping, C11 stateless QPACK, C14 writers, C02+C03 FrameStream and '
                    'RequestStream); their premises are the http-crate facts request_head_ok / response_head_ok / trailers_ok '
                    '(every value an application can hold prints to a string the crate parser accepts; at most 24576 field lines; '
                    'field section below 2^26 bytes) and that the receiving calls have completed (completion itself is C06). '
                    'Split streams: C01_split_point_irrelevant (the receive half starts from the whole stream state, fields '
                    'read from the source by gen_split) plus the linked-pair run with seeded split points on both sides. Covered '
                    'by the linked-pair run only: the interleaving of the connection drivers and of other streams')
    trusted_extra = [
        'http crate behaviour (Uri/Method/HeaderName/HeaderValue parse and print) enters as the premises request_ok / response_ok / '
        'map_ok of the header-mapping round trip; the linked-pair run exercises the real crate',
        'the linked-pair scheduler of harness/src/bin/c01.rs (seeded choice among enabled actions) and SimQuic pump',
        'the component models composed here (Model/Headers.v, HttpCrate.v, QpackStateless.v, WriteBuf.v, FrameEnc.v, FrameDec.v, '
        'FrameStream.v, RequestStream.v) are tied to the code by their own properties C12, C11, C14, C02, C03 and, end to end, by '
        'this run: the model column is the composed pipeline of Model/EndToEndH3.v',
    ]

    def cases(self, tier, rng):
        out = []
        n = 800 if tier == 'quick' else 100000
        for i in range(n):
            out.append(gen_case(rng, tier, heavy=(tier != 'quick' and i % 50 == 0)))
        for i in range(220 if tier == 'quick' else 20000):
            out.append(gen_multi(rng))
        # a few heavy cases that differ from run to run (every case line is self-contained, so a failure replays)
        import os
        hr = __import__('random').Random(int.from_bytes(os.urandom(8), 'big'))
        for i in range(6 if tier == 'quick' else 300):
            out.append(gen_heavy(hr))
        for i in range(8 if tier == 'quick' else 2000):
            out.append(gen_bigsec(rng if i % 2 else hr, tier == 'quick'))
        return out

    def canon(self, case, out):
        if out is None:
            return out
        w = out.split()
        if w and w[0] == 'err':
            # only which call failed is compared, never codes or message text
            return ' '.join(['err'] + [t.split('=')[0] for t in w[1:2]])
        return out

    def spec_ok(self, case, out, spec):
        if spec is None:
            return True
        return spec_match(self.canon(case, out), self.canon(case, spec))

    def nontrivial_key(self, case, impl_out):
        if not impl_out.startswith('ok '):
            return None
        w = dict(t.split('=', 1) for t in impl_out.split()[1:] if '=' in t)
        if any(w.get(k, '-') not in ('-', 'n') for k in ('q.h', 'q.b', 'q.t', 'r.h', 'r.b', 'r.t')):
            return case
        return None

    def family(self, case):
        w = case.split()
        if w and w[0] == 'multi':
            return 'multi.' + (w[1][5:] if len(w) > 1 else '?')
        try:
            return 'e2e.%s.%s' % ('whole' if w[6] in ('split=0', 'split=n,n') else 'split',
                                  'paced' if (w[3] != 'wire=big' or w[4] != 'budget=u') else 'free')
        except IndexError:
            return 'e2e'

    def shrink_candidates(self, case):
        w = case.split()
        if len(w) < 7 or w[0] != 'e2e':
            return []
        out = []

        def put(i, v):
            if w[i] != v:
                out.append(' '.join(w[:i] + [v] + w[i + 1:]))

        if len(w) > 7:
            out.append(' '.join(w[:7]))
            for k in range(7, len(w)):
                out.append(' '.join(w[:k] + w[k + 1:]))
        put(6, 'split=n,n')
        if ',' in w[6]:
            c, sv = w[6][len('split='):].split(',', 1)
            put(6, 'split=n,%s' % sv)
            put(6, 'split=%s,n' % c)
        put(3, 'wire=big')
        put(4, 'budget=u')
        put(5, 'sched=u1')
        for idx, key, nf in ((1, 'msg=', 7), (2, 'resp=', 4)):
            parts = w[idx][len(key):].split(',')
            if len(parts) != nf:
                continue
            fi, bi, ti = nf - 3, nf - 2, nf - 1

            def rebuilt(j, v):
                q = list(parts)
                q[j] = v
                return ' '.join(w[:idx] + [key + ','.join(q)] + w[idx + 1:])
            if parts[ti] != 'n':
                out.append(rebuilt(ti, 'n'))
                fs = parts[ti].split(';')
                if len(fs) > 1:
                    for k in range(len(fs)):
                        out.append(rebuilt(ti, ';'.join(fs[:k] + fs[k + 1:])))
            if parts[bi] != 'n':
                out.append(rebuilt(bi, 'n'))
                ps = parts[bi].split('.')
                if len(ps) > 1:
                    for k in range(len(ps)):
                        out.append(rebuilt(bi, '.'.join(ps[:k] + ps[k + 1:])))
                for k, p in enumerate(ps):
                    if p.startswith('g'):
                        ln = int(p[1:].split('s')[0])
                        for small in (ln // 2, ln - 1, 1):
                            if 0 < small < ln:
                                out.append(rebuilt(bi, '.'.join(ps[:k] + ['g%ds%s' % (small, p.split('s')[1])] + ps[k + 1:])))
                    elif p != 'e' and len(p) > 2:
                        out.append(rebuilt(bi, '.'.join(ps[:k] + [p[:len(p) // 4 * 2] or p[:2]] + ps[k + 1:])))
            if parts[fi] != '-':
                fs = parts[fi].split(';')
                for k in range(len(fs)):
                    # keep a host field: dropping it can turn the request into one the sender refuses
                    try:
                        if bytes.fromhex(fs[k].split('=')[0]).lower() == b'host':
                            continue
                    except ValueError:
                        continue
                    out.append(rebuilt(fi, ';'.join(fs[:k] + fs[k + 1:]) or '-'))
        seen, res = set(), []
        for c in out:
            if c != case and c not in seen:
                seen.add(c)
                res.append(c)
        return res[:60]


PROP = P()
