import itertools

from core import Property
from props.c16 import enc

# ---------------------------------------------------------------- frame alphabet
# every known type, the four HTTP/2-reserved ones, unknown/grease types, the WebTransport stream header, and
# non-minimal encodings of some of them.  Types whose payload has fields get payloads over a small byte alphabet
# (one-byte varints, first byte of a two-byte / four-byte varint); opaque payloads are a fixed pattern that itself
# looks like frame headers (so a payload byte read as a header would be noticed).
OPAQUE_1 = [0, 1, 2, 6, 8, 9, 0x0a, 0x21]
FIELD_1 = [3, 5, 7, 0x0d]
PATTERN = bytes([0x07, 0x01, 0x04, 0x00, 0x00, 0x03, 0x01])
PAY = {'quick': [0x04, 0x40], 'thorough': [0x00, 0x04, 0x40, 0x80]}
SPAY = {'quick': [0x01, 0x40, 0x04], 'thorough': [0x01, 0x21, 0x40, 0x04]}


def atoms(kmax, tier):
    """all complete frames of at most kmax bytes over the alphabet"""
    out = []
    heads = []   # (encoded type, kind)
    for t in OPAQUE_1:
        heads.append((bytes([t]), 'o'))
    for t in FIELD_1:
        heads.append((bytes([t]), 'f'))
    heads.append((bytes([4]), 's'))
    for t in (0, 7, 0x21):
        heads.append((enc(t, 2), 'f' if t == 7 else 'o'))
    if tier != 'quick':
        heads += [(enc(0, 4), 'o'), (enc(3, 4), 'f'), (enc(1, 2), 'o')]
    for t, kind in heads:
        for lform in (1, 2, 4):
            if lform == 4 and (tier == 'quick' or len(t) > 1):
                continue
            if lform == 2 and len(t) > 1 and tier == 'quick':
                continue
            for L in range(0, kmax + 1):
                if len(t) + lform + L > kmax:
                    break
                hdr = t + enc(L, lform)
                if len(t) + lform + L > kmax - 2:
                    # longer than any string we keep: only its truncations are used, one payload is enough
                    out.append(hdr + PATTERN[:L])
                    break
                if kind == 'o':
                    out.append(hdr + PATTERN[:L])
                else:
                    for p in itertools.product(PAY[tier] if kind == 'f' else SPAY[tier], repeat=L):
                        out.append(hdr + bytes(p))
    # WebTransport stream headers: type 0x41 then a session id (no length)
    for sid in (bytes([0]), bytes([4]), enc(4, 2)):
        out.append(enc(0x41, 2) + sid)
    # declared lengths larger than anything that follows
    for t in (b'\x00', b'\x01', b'\x07', b'\x21', b'\x04'):
        out.append(t + enc(63, 1))
    return out


REDUCED_HEADS = (b'\x00', b'\x01', b'\x07', b'\x21')


def strings_upto(k, tier):
    """concatenations of atoms cut at every length <= k (so truncated last frames are included); at most one frame
    of a string comes from the full alphabet, the others from the reduced one (DATA, HEADERS, GOAWAY, unknown with
    one-byte type and length) - every frame kind is met in first, middle and last position next to those"""
    at = atoms(k + 2, tier)
    red = [a for a in at if a[:1] in REDUCED_HEADS and a[1] < 0x40 and len(a) <= k]
    redset = set(red)
    nonred = [a for a in at if a not in redset]
    seen = set()
    full = set([(b'', False)])
    stack = [(b'', False)]
    while stack:
        s, used = stack.pop()
        # (atom list, does it use up the one full-alphabet slot)
        for lst, uses in ((red, False),) if used else ((red, False), (nonred, True)):
            for a in lst:
                t = s + a
                if len(t) <= k:
                    st = (t, used or uses)
                    if st not in full:
                        full.add(st)
                        stack.append(st)
                for cut in range(len(s) + 1, min(len(t), k) + 1):
                    seen.add(t[:cut])
    seen |= set(s for s, _ in full)
    seen.discard(b'')
    return sorted(seen, key=lambda x: (len(x), x))


def compositions(n):
    """all ways to cut a string of n bytes into non-empty chunks, as lists of chunk lengths"""
    for mask in range(1 << (n - 1)) if n > 0 else []:
        parts, last = [], 0
        for i in range(n - 1):
            if mask >> i & 1:
                parts.append(i + 1 - last)
                last = i + 1
        parts.append(n - last)
        yield parts


def chunks_of(s, parts):
    out, pos = [], 0
    for p in parts:
        out.append(s[pos:pos + p])
        pos += p
    return out


ENDINGS = ('F', 'R268', '')


def batch(chunks, ending, npolls):
    acts = ['c' + c.hex() for c in chunks]
    if ending:
        acts.append(ending)
    return 'fs ' + ','.join(acts + ['p'] * npolls)


def incremental(chunks, ending, per):
    acts = []
    for c in chunks:
        acts.append('c' + c.hex())
        acts += ['p'] * (per + len(c))
    if ending:
        acts.append(ending)
    acts += ['p'] * 3
    return 'fs ' + ','.join(acts)


def random_interleaving(rng, chunks, ending, misuse=False):
    arr = ['c' + c.hex() for c in chunks] + ([ending] if ending else [])
    total = sum(len(c) for c in chunks)
    ncalls = total + 6
    acts = []
    calls_left = ncalls
    for a in arr:
        while calls_left and rng.random() < 0.45:
            acts.append(rng.choice('pppppppppdn') if misuse else 'p')
            calls_left -= 1
        acts.append(a)
    acts += ['p'] * min(calls_left, total + 4)
    return 'fs ' + ','.join(acts)


def rand_frame(rng):
    t = rng.choice([0, 0, 0, 1, 1, 3, 4, 5, 7, 0x0d, 2, 6, 8, 9, 0x21, 0x21 + 0x1f * rng.randrange(1, 2 ** 20), 0x0a,
                    rng.getrandbits(rng.choice([6, 14, 30, 62]))])
    tl = rng.choice([l for l in (1, 2, 4, 8) if t < 2 ** (8 * l - 2)])
    if t in (3, 7, 0x0d):
        v = rng.getrandbits(rng.choice([6, 14, 30, 62]))
        p = enc(v, rng.choice([l for l in (1, 2, 4, 8) if v < 2 ** (8 * l - 2)]))
        r = rng.random()
        if r < 0.15:
            p = p[:-1]
        elif r < 0.3:
            p = p + bytes([rng.getrandbits(8)])
    elif t == 5:
        v = rng.getrandbits(rng.choice([6, 14]))
        p = enc(v, rng.choice([l for l in (1, 2, 4, 8) if v < 2 ** (8 * l - 2)])) + bytes(rng.getrandbits(8) for _ in range(rng.randint(0, 5)))
        if rng.random() < 0.15:
            p = p[:rng.randint(0, 1)]
    elif t == 4:
        p = b''
        ids = [1, 6, 7, 8, 0x33, 0x2b603742, 0x2b603743, 0x21, 0x40, 0, 2, 3, 4, 5, 0xffd277]
        for _ in range(rng.randint(0, 4)):
            i = rng.choice(ids)
            v = rng.getrandbits(rng.choice([1, 6, 14, 30]))
            p += enc(i, rng.choice([l for l in (1, 2, 4, 8) if i < 2 ** (8 * l - 2)])) + enc(v, rng.choice([l for l in (1, 2, 4, 8) if v < 2 ** (8 * l - 2)]))
        if rng.random() < 0.2:
            p = p[:-1] if p else b'\x01'
    else:
        p = bytes(rng.getrandbits(8) for _ in range(rng.choice([0, 0, 1, 2, 3, 5, 17, 70, rng.randint(0, 300)])))
    L = len(p)
    if rng.random() < 0.05:
        L = L + rng.randint(1, 10)   # declared longer than what follows in this frame: swallows the next one
    ll = rng.choice([l for l in (1, 2, 4, 8) if L < 2 ** (8 * l - 2)])
    return enc(t, tl) + enc(L, ll) + p


def rand_stream(rng):
    s = b''.join(rand_frame(rng) for _ in range(rng.randint(1, 6)))
    r = rng.random()
    if r < 0.35:
        s = s[:rng.randint(0, len(s))]
    elif r < 0.4:
        s += enc(0x41, 2) + enc(rng.getrandbits(6), 1) + b'raw'
    return s


def rand_chunking(rng, s):
    out, rest = [], s
    while rest:
        c = rng.choice([1, 1, 2, 3, rng.randint(1, 8), rng.randint(1, 200), len(rest)])
        c = min(c, len(rest))
        out.append(rest[:c])
        rest = rest[c:]
    return out


def parse_obs(out):
    """observed result -> (tokens with bytes one by one, tail or None, last call was pending, error code or None)"""
    toks, tail, pend, code = [], None, False, None
    owed = 0
    for w in out.split()[1:]:
        if tail is not None:
            tail = 'result-after-final:' + w
            break
        if w == 'pend':
            pend = True
            continue
        pend = False
        if w.startswith('f:'):
            toks.append(w)
            if w.startswith('f:wt:'):
                tail = 'handover'
            if w.startswith('f:data:'):
                owed = int(w[7:])
        elif w.startswith('d:'):
            h = w[2:]
            toks += ['b' + h[i:i + 2] for i in range(0, len(h), 2)] if h != '-' else []
            owed -= len(h) // 2 if h != '-' else 0
            if h == '-' or owed < 0:
                tail = 'bad-data-piece'
        elif w == 'none':
            # poll_data says "this DATA frame is finished": only right when every declared byte was handed out
            if owed != 0:
                tail = 'data-end-with-%d-bytes-owed' % owed
        elif w == 'end':
            tail = 'clean'
        elif w == 'err:end':
            tail = 'frameerror'
        elif w.startswith('err:proto:'):
            p = w.split(':')
            kind = {'malformed': 'malformed', 'value': 'malformed', 'forbidden': 'forbidden', 'settings': 'settings'}.get(p[2], 'other-' + p[2])
            tail = 'proto:' + kind + (':' + p[4] if kind == 'forbidden' and len(p) > 4 else '')
            code = p[3]
        elif w.startswith('err:quic:'):
            tail = 'aborted:' + w[len('err:quic:'):]
        else:
            tail = 'unparsed:' + w
    return toks, tail, pend, code


def parse_spec(spec):
    w = spec.split()
    i = w.index('T')
    toks = []
    for x in w[1:i]:
        if x.startswith('b:'):
            h = x[2:]
            toks += ['b' + h[j:j + 2] for j in range(0, len(h), 2)]
        else:
            toks.append(x)
    tail = w[i + 1]
    code = None
    for x in w[i + 2:]:
        if x.startswith('code='):
            code = x[5:]
    return toks, tail, code


class P(Property):
    id = 'C02'
    gen_modules = ['gen_varint', 'gen_codes', 'gen_frames']
    properties_v = 'Properties/C02.v'
    model_targets = ['Model/FrameStream.vo', 'Spec/Frames.vo']
    extract_v = 'Extract/ExtractC02.v'
    driver_ml = 'C02_driver.ml'
    harness_bin = 'c02'
    rule = ('fs: every byte string of total length <= 5 (quick) / <= 7 (thorough) made of complete or truncated frames over '
            'the alphabet {all known types, the 4 HTTP/2-reserved types, unknown types, WebTransport header; 1/2(/4)-byte '
            'forms of type and length; payload lengths 0..k; field payloads over {04,40(,00,80)}, SETTINGS payloads over '
            '{01,40,04(,21)}, opaque payloads that look like frame headers; at most one frame per string from the full '
            'alphabet, the others from {DATA, HEADERS, GOAWAY, unknown}} x every composition into chunks (length <= 5; a '
            'seeded 8 of 32 for length 6 and 3 of 64 for length 7) x {FIN, RESET, open} x {all arrivals then polls, polls '
            'after every arrival}; plus seeded random long '
            'streams (realistic frames, mutated lengths/payloads, truncations) with random chunkings and random '
            'interleavings of arrivals and calls, some with out-of-contract poll_next/poll_data calls; fd: Frame::decode '
            'on every alphabet string and on random ones; fe: the error-code table. non-trivial = distinct cases whose '
            'implementation result contains a frame, DATA bytes or a frame-layer error')

    def cases(self, tier, rng):
        out = []
        for k in ('malformed', 'forbidden', 'value', 'settings', 'streamid', 'pushid'):
            out.append('fe ' + k)
        k = 5 if tier == 'quick' else 7
        strs = strings_upto(k, tier)
        for s in strs:
            out.append('fd ' + s.hex())
            n = len(s)
            comps = list(compositions(n))
            endings = ENDINGS
            if n == 6:
                comps = rng.sample(comps, 8)       # thorough only: 8 of the 32 chunkings, seeded
            elif n == 7:
                comps = rng.sample(comps, 3)       # 3 of the 64, each with one seeded ending
            for parts in comps:
                ch = chunks_of(s, parts)
                if n == 7:
                    endings = (rng.choice(ENDINGS),)
                for e in endings:
                    out.append(batch(ch, e, n + 3))
                    # polls after every arrival: for the longest strings of the quick tier only with FIN
                    if len(ch) > 1 and (tier != 'quick' or n < 5 or e == 'F'):
                        out.append(incremental(ch, e, 1))
        for _ in range(4000 if tier == 'quick' else 60000):
            s = rand_stream(rng)
            out.append('fd ' + (s[:rng.randint(0, min(len(s), 40))].hex() or '-'))
            ch = rand_chunking(rng, s)
            e = rng.choice(['F', 'F', 'R%d' % rng.choice([0, 256, 268, 2 ** 40]), 'X%d' % rng.choice([256, 258]), 'T', ''])
            out.append(random_interleaving(rng, ch, e, misuse=rng.random() < 0.1))
            out.append(batch(ch, e, 4 * len(ch) + 12))
        return out

    def canon(self, case, out):
        if out.startswith('panic'):
            return 'panic'
        return out

    def spec_ok(self, case, out, spec):
        if spec is None:
            return True
        w = case.split()
        if w[0] == 'fe':
            return spec.split()[1] in ('*', out.split()[1])
        if w[0] != 'fs':
            return True
        acts = w[1].split(',') if len(w) > 1 else []
        if out.startswith('panic'):
            # only a caller that breaks the documented contract (poll_next while DATA is owed) may see a panic
            return 'n' in acts
        if not out.startswith('ok'):
            return False
        toks, tail, pend, code = parse_obs(out)
        stoks, stail, scode = parse_spec(spec)
        arrivals = [a for a in acts if a[0] in 'cFRXT']
        ending, ending_act = '', ''
        for a in arrivals:
            if a[0] in 'FRXT':
                ending, ending_act = a[0], a
                break
        last_call = max([i for i, a in enumerate(acts) if a in ('p', 'n', 'd')], default=-1)
        complete = last_call >= 0 and not any(a[0] in 'cFRXT' for a in acts[last_call + 1:])
        if toks != stoks[:len(toks)]:
            return False
        if tail is None:
            if pend and complete:
                # nothing more will arrive and the call is still pending: only right on an open stream, everything delivered
                return ending == '' and toks == stoks and stail == 'waiting'
            return True
        if tail == stail and toks == stoks:
            return code is None or scode is None or code == scode
        if tail == 'frameerror' and stail.startswith('frameerror'):
            return all(t.startswith('b') for t in stoks[len(toks):])
        if ending_act and ending_act[0] in 'RXT' and tail.startswith('aborted:'):
            # a reset / connection loss may overtake frames that were already buffered: any prefix, then the abort
            want = {'R': 'aborted:term:', 'X': 'aborted:app:', 'T': 'aborted:timeout'}[ending_act[0]] + ending_act[1:]
            return tail == want
        return False

    def nontrivial_key(self, case, impl_out):
        if any(x in impl_out for x in (' f:', ' d:', 'err:proto', 'err:end', 'err unknown', 'err malformed', 'err unsupported', 'err settings')):
            return case
        if impl_out.startswith('ok f:'):
            return case
        return None

    def shrink_candidates(self, case):
        w = case.split()
        if w[0] != 'fs' or len(w) < 2:
            return []
        acts = w[1].split(',')
        out = []
        for i in range(len(acts)):
            out.append('fs ' + ','.join(acts[:i] + acts[i + 1:]))
        for i, a in enumerate(acts):
            if a[0] == 'c' and len(a) > 3:
                out.append('fs ' + ','.join(acts[:i] + [a[:-2]] + acts[i + 1:]))
                out.append('fs ' + ','.join(acts[:i] + ['c' + a[3:]] + acts[i + 1:]))
        return [c for c in out if c != 'fs ']


PROP = P()
