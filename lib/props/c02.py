import itertools
import re

from core import Property
from props.c16 import enc

# ---------------------------------------------------------------- frame alphabet
# every known type, the four HTTP/2-reserved ones, unknown/grease types, the WebTransport stream header, and
# non-minimal encodings of some of them.  Types whose payload has fields get payloads over a small byte alphabet
# (one-byte varints, first byte of a two-byte / four-byte varint); opaque payloads are a fixed pattern that itself
# looks like frame headers (so a payload byte read as a header would be noticed).
OPAQUE_1 = [0, 1, 2, 6, 8, 9, 0x0a, 0x21]
FIELD_1 = [3, 5, 7, 0x0d]
PATTERN = bytes([0x07, 0x01, 0x04, 0x00, 0x00, 0x03, 0x01])
PAY = {'quick': [0x04, 0x40], 'thorough': [0x00, 0x04, 0x40, 0x80]}
SPAY = {'quick': [0x01, 0x40, 0x04], 'thorough': [0x01, 0x21, 0x40, 0x04]}


def atoms(kmax, tier):
    """all complete frames of at most kmax bytes over the alphabet"""
    out = []
    heads = []   # (encoded type, kind)
    for t in OPAQUE_1:
        heads.append((bytes([t]), 'o'))
    for t in FIELD_1:
        heads.append((bytes([t]), 'f'))
    heads.append((bytes([4]), 's'))
    for t in (0, 7, 0x21):
        heads.append((enc(t, 2), 'f' if t == 7 else 'o'))
    if tier != 'quick':
        heads += [(enc(0, 4), 'o'), (enc(3, 4), 'f'), (enc(1, 2), 'o')]
    for t, kind in heads:
        for lform in (1, 2, 4):
            if lform == 4 and (tier == 'quick' or len(t) > 1):
                continue
            if lform == 2 and len(t) > 1 and tier == 'quick':
                continue
            for L in range(0, kmax + 1):
                if len(t) + lform + L > kmax:
                    break
                hdr = t + enc(L, lform)
                if len(t) + lform + L > kmax - 2:
                    # longer than any string we keep: only its truncations are used, one payload is enough
                    out.append(hdr + PATTERN[:L])
                    break
                if kind == 'o':
                    out.append(hdr + PATTERN[:L])
                else:
                    for p in itertools.product(PAY[tier] if kind == 'f' else SPAY[tier], repeat=L):
                        out.append(hdr + bytes(p))
    # WebTransport stream headers: type 0x41 then a session id (no length)
    for sid in (bytes([0]), bytes([4]), enc(4, 2)):
        out.append(enc(0x41, 2) + sid)
    # declared lengths larger than anything that follows
    for t in (b'\x00', b'\x01', b'\x07', b'\x21', b'\x04'):
        out.append(t + enc(63, 1))
    return out


REDUCED_HEADS = (b'\x00', b'\x01', b'\x07', b'\x21')


def strings_upto(k, tier):
    """concatenations of atoms cut at every length <= k (so truncated last frames are included); at most one frame
    of a string comes from the full alphabet, the others from the reduced one (DATA, HEADERS, GOAWAY, unknown with
    one-byte type and length) - every frame kind is met in first, middle and last position next to those"""
    at = atoms(k + 2, tier)
    red = [a for a in at if a[:1] in REDUCED_HEADS and a[1] < 0x40 and len(a) <= k]
    redset = set(red)
    nonred = [a for a in at if a not in redset]
    seen = set()
    full = set([(b'', False)])
    stack = [(b'', False)]
    while stack:
        s, used = stack.pop()
        # (atom list, does it use up the one full-alphabet slot)
        for lst, uses in ((red, False),) if used else ((red, False), (nonred, True)):
            for a in lst:
                t = s + a
                if len(t) <= k:
                    st = (t, used or uses)
                    if st not in full:
                        full.add(st)
                        stack.append(st)
                for cut in range(len(s) + 1, min(len(t), k) + 1):
                    seen.add(t[:cut])
    seen |= set(s for s, _ in full)
    seen.discard(b'')
    return sorted(seen, key=lambda x: (len(x), x))


def compositions(n):
    """all ways to cut a string of n bytes into non-empty chunks, as lists of chunk lengths"""
    for mask in range(1 << (n - 1)) if n > 0 else []:
        parts, last = [], 0
        for i in range(n - 1):
            if mask >> i & 1:
                parts.append(i + 1 - last)
                last = i + 1
        parts.append(n - last)
        yield parts


def chunks_of(s, parts):
    out, pos = [], 0
    for p in parts:
        out.append(s[pos:pos + p])
        pos += p
    return out


ENDINGS = ('F', 'R268', '')
# how a stream can fail: reset, a stream failure of the transport's own kind (StreamErrorIncoming::Unknown), the connection
# closed by the peer / failing in an unknown way (Undefined) / internally / by timeout
FAILURES = ('K', 'XU', 'I', 'T', 'X256')
TERMINAL = 'FRXTIK'


def aborted_name(act):
    if act[0] == 'R':
        return 'aborted:term:' + act[1:]
    if act == 'XU':
        return 'aborted:undefined'
    if act[0] == 'X':
        return 'aborted:app:' + act[1:]
    return {'T': 'aborted:timeout', 'I': 'aborted:internal', 'K': 'aborted:unknown'}[act[0]]


def batch(chunks, ending, npolls):
    acts = ['c' + c.hex() for c in chunks]
    if ending:
        acts.append(ending)
    return 'fs ' + ','.join(acts + ['p'] * npolls)


def incremental(chunks, ending, per):
    acts = []
    for c in chunks:
        acts.append('c' + c.hex())
        acts += ['p'] * (per + len(c))
    if ending:
        acts.append(ending)
    acts += ['p'] * 3
    return 'fs ' + ','.join(acts)


def random_interleaving(rng, chunks, ending, misuse=False):
    arr = ['c' + c.hex() for c in chunks] + ([ending] if ending else [])
    total = sum(len(c) for c in chunks)
    ncalls = total + 6
    acts = []
    calls_left = ncalls
    for a in arr:
        while calls_left and rng.random() < 0.45:
            acts.append(rng.choice('pppppppppdn') if misuse else 'p')
            calls_left -= 1
        acts.append(a)
    acts += ['p'] * min(calls_left, total + 4)
    return 'fs ' + ','.join(acts)


def rand_frame(rng):
    t = rng.choice([0, 0, 0, 1, 1, 3, 4, 5, 7, 0x0d, 2, 6, 8, 9, 0x21, 0x21 + 0x1f * rng.randrange(1, 2 ** 20), 0x0a,
                    0x0e, 0x0c, 0x89, 0xf0700, 0xf0701, GREASE8, 0x21 + 0x1f * rng.randrange(2 ** 30, 2 ** 55),
                    rng.getrandbits(rng.choice([6, 14, 30, 62]))])
    tl = rng.choice([l for l in (1, 2, 4, 8) if t < 2 ** (8 * l - 2)])
    if t in (3, 7, 0x0d):
        v = rng.getrandbits(rng.choice([6, 14, 30, 62]))
        p = enc(v, rng.choice([l for l in (1, 2, 4, 8) if v < 2 ** (8 * l - 2)]))
        r = rng.random()
        if r < 0.15:
            p = p[:-1]
        elif r < 0.3:
            p = p + bytes([rng.getrandbits(8)])
    elif t == 5:
        v = rng.getrandbits(rng.choice([6, 14]))
        p = enc(v, rng.choice([l for l in (1, 2, 4, 8) if v < 2 ** (8 * l - 2)])) + bytes(rng.getrandbits(8) for _ in range(rng.randint(0, 5)))
        if rng.random() < 0.15:
            p = p[:rng.randint(0, 1)]
    elif t == 4:
        p = b''
        ids = [1, 6, 7, 8, 0x33, 0x2b603742, 0x2b603743, 0x21, 0x40, 0, 2, 3, 4, 5, 0xffd277]
        for _ in range(rng.randint(0, 4)):
            i = rng.choice(ids)
            v = rng.getrandbits(rng.choice([1, 6, 14, 30]))
            p += enc(i, rng.choice([l for l in (1, 2, 4, 8) if i < 2 ** (8 * l - 2)])) + enc(v, rng.choice([l for l in (1, 2, 4, 8) if v < 2 ** (8 * l - 2)]))
        if rng.random() < 0.2:
            p = p[:-1] if p else b'\x01'
    else:
        p = bytes(rng.getrandbits(8) for _ in range(rng.choice([0, 0, 1, 2, 3, 5, 17, 70, rng.randint(0, 300)])))
    L = len(p)
    if rng.random() < 0.05:
        L = L + rng.randint(1, 10)   # declared longer than what follows in this frame: swallows the next one
    ll = rng.choice([l for l in (1, 2, 4, 8) if L < 2 ** (8 * l - 2)])
    return enc(t, tl) + enc(L, ll) + p


def rand_stream(rng):
    s = b''.join(rand_frame(rng) for _ in range(rng.randint(1, 6)))
    r = rng.random()
    if r < 0.35:
        s = s[:rng.randint(0, len(s))]
    elif r < 0.4:
        s += enc(0x41, 2) + enc(rng.getrandbits(6), 1) + b'raw'
    return s


def rand_chunking(rng, s):
    out, rest = [], s
    while rest:
        c = rng.choice([1, 1, 2, 3, rng.randint(1, 8), rng.randint(1, 200), len(rest)])
        c = min(c, len(rest))
        out.append(rest[:c])
        rest = rest[c:]
    return out


# ---- beyond the exhaustive alphabet: other unknown types (non-grease, registered extensions such as ORIGIN 0x0c, ACCEPT_CH
# 0x89, PRIORITY_UPDATE 0xf0700/1; 2/4/8-byte type varints), payloads whose length needs a 2- or 4-byte varint,
# non-minimal length varints, and long runs of short frames
GREASE8 = 0x21 + 0x1f * (2 ** 40 + 12345)
EXT_TYPES = [0x0e, 0x0c, 0x40, 0x89, 0xf0700, 0xf0701, GREASE8, 0x21, 0x2f, 0, 1, 2, 6, 8, 9]
FILL = bytes((7, 1, 4, 0, 0, 3, 1, 2)) * 2048


def mk(t, payload, ll=None, declared=None):
    tl = 1 if t < 64 else 2 if t < 2 ** 14 else 4 if t < 2 ** 30 else 8
    L = len(payload) if declared is None else declared
    if ll is None:
        ll = 1 if L < 64 else 2 if L < 2 ** 14 else 4
    return enc(t, tl) + enc(L, ll) + payload


def few_chunkings(rng, s, frames=None):
    out = [[s]]
    if frames and len(frames) > 1:
        out.append(list(frames))
    if len(s) > 2:
        out.append(rand_chunking(rng, s))
        c = rng.randint(1, len(s) - 1)
        out.append([s[:c], s[c:]])
    return out


def ext_cases(rng, tier):
    out = []
    tail = mk(1, b'\xaa\xbb')
    for t in EXT_TYPES:
        for L in (0, 3, 63, 64, 16383, 16384):
            if L > 64 and t in (0x40, 0x89, 0xf0701, 0x2f, 2, 6, 8, 9):
                continue
            for frames in ([mk(t, FILL[:L])], [mk(1, b'\x00\x01'), mk(t, FILL[:L]), mk(0, b'xyz')], [mk(t, FILL[:L]), tail]):
                s = b''.join(frames)
                for e in ('F', ''):
                    for ch in few_chunkings(rng, s, frames)[:(2 if L > 64 else 4)]:
                        out.append(batch(ch, e, 2 * len(frames) + len(ch) + 6))
                if L <= 64:
                    out.append(incremental(rand_chunking(rng, s), 'F', 1))
        for ll in (2, 4, 8):
            s = mk(t, b'abc', ll=ll) + tail
            out.append(batch([s], 'F', 8))
            out.append(incremental(rand_chunking(rng, s), rng.choice(['F', '']), 1))
    return out


def many_chunk_cases(rng, tier):
    """one frame (or one frame header) spread over many transport chunks that are all queued before a single poll:
    34..300 chunks of 1..3 bytes, so that any per-poll budget on chunks pulled from the transport shows"""
    out = []
    units = [mk(1, FILL[:60]), mk(1, FILL[:200]), mk(0x21, FILL[:90]), mk(0x0e, FILL[:40]), mk(7, b'\x04'), mk(4, b''), mk(0, FILL[:70]), mk(GREASE8, FILL[:50], ll=8)]
    tail = mk(1, b'\xaa\xbb')
    for u in units:
        for pre in (b'', mk(1, b'\x00\x01')):
            s = pre + u + tail
            for size in ((1, 2) if tier == 'quick' else (1, 2, 3)):
                ch = [s[i:i + size] for i in range(0, len(s), size)]
                for e in ('F', ''):
                    out.append(batch(ch, e, 8))
                out.append(batch(ch[:len(ch) // 2], '', 2)[:] + ',' + ','.join('c' + c.hex() for c in ch[len(ch) // 2:]) + ',F,p,p,p,p,p,p')
    return out


def run_cases_long(rng, tier):
    out = []
    u0, g8, d0, d1, un = mk(0x21, b''), mk(GREASE8, b''), mk(0, b''), mk(0, b'z'), mk(0x0e, b'\x01\x02\x00')
    for k in ((20, 33, 100, 300) if tier == 'quick' else (20, 33, 40, 64, 100, 200, 300)):
        for unit in ([u0], [g8], [d0], [d1], [un], [u0, d0, un, d1], [mk(7, b'\x04') if False else u0, g8]):
            frames = (unit * k)[:k] + [mk(1, b'\xaa\xbb')]
            s = b''.join(frames)
            for e in ('F', ''):
                out.append(batch([s], e, 2 * k + 8))
            out.append('fs ' + ','.join(x for f in frames for x in ('c' + f.hex(), 'p', 'p')) + ',F,p,p,p')
            ch = rand_chunking(rng, s)
            out.append(batch(ch, 'F', 2 * k + len(ch) + 8))
            out.append(random_interleaving(rng, rand_chunking(rng, s), rng.choice(['F', ''])))
    return out


REQ = bytes.fromhex('0000d1d7500161c1')
RESP = bytes.fromhex('0000d9')


TRL = bytes.fromhex('000023782d740176')


def hc_cases():
    """streams whose frame-layer outcome is an error: the code must be the one the REAL endpoints raise (request path of
    a server / a client incl. after trailers, poll_control for the control stream before and after SETTINGS), whatever the
    arrival pattern: A everything queued before the first poll, B one chunk per frame, C the FIN arrives late"""
    out = []
    bad = [('07020400', ''), ('0700', ''), ('03020400', ''), ('0d00', ''), ('0500', ''), ('0200', ''), ('0600', ''), ('0800aabb', ''),
           ('0901ff', ''), ('07', 'F'), ('0701', 'F'), ('0103aa', 'F'), ('2105aa', 'F'), ('40', 'F'), ('0e0440', 'F'), ('0004ab', 'F')]
    for site in ('s', 'c'):
        head = mk(1, REQ if site == 's' else RESP).hex()
        trl = mk(1, TRL).hex()
        for b, e in bad:
            pres = ['', head, head + '.0002abcd', head + '.2100', head + '.' + trl, head + '.0003616263.' + trl + '.2100']
            for pre in pres:
                if b.startswith('00') and (not pre or trl in pre):
                    continue          # DATA before HEADERS / after trailers is a request-level matter (C03)
                if b.startswith('01') and trl in pre:
                    continue
                for pat in 'ABC':
                    out.append('hc %s %s %s %s' % (site, (pre + '.' + b).lstrip('.'), e or '-', pat))
    for b, e in bad:
        if b.startswith('00') or b.startswith('01') or b.startswith('05'):
            continue                  # DATA / HEADERS / PUSH_PROMISE on the control stream: C04's rules come first
        for pre in ('', '2100', '0e03aabbcc'):
            for pat in 'ABC':
                out.append('hc ctl %s %s %s' % ((pre + '.' + b).lstrip('.'), e or '-', pat))
    # before any SETTINGS frame: a frame cut by FIN is a frame error, not a missing-SETTINGS matter
    for b in ('04', '0402', '040201', '21', '2105aa', '0e', '4021', '07', '0701', '2100.04', '2100.0e03aa', '0d'):
        for pat in 'ABC':
            out.append('hc ctl0 %s F %s' % (b, pat))
    return out


def big_length_cases(rng):
    """declared lengths that do not fit 32 bits (8-byte length varints)"""
    out = []
    for t in (0, 0x21, 1, 0x0e):
        for L in (2 ** 32, 2 ** 32 + 3, 2 ** 32 + 11, 2 ** 40, 2 ** 62 - 1):
            hdr = mk(t, b'', ll=8, declared=L)
            for tailb in (b'', b'abc', b'abc' + mk(1, b'\xaa'), b'abc' + mk(1, b'\xaa') + mk(0, b'xy')):
                s = hdr + tailb
                out.append('fd ' + s.hex())
                for e in ('F', ''):
                    out.append(batch([s], e, 8))
                    out.append(batch([hdr] + ([tailb] if tailb else []), e, 8))
                out.append(incremental(rand_chunking(rng, s), 'F', 1))
            pre = mk(1, b'\x00\x01')
            out.append(batch([pre + hdr + b'abc' + mk(1, b'\xaa')], 'F', 10))
    return out


def parse_obs(out):
    """observed result -> (tokens with bytes one by one, tail or None, last call was pending, error code or None)"""
    toks, tail, pend, code = [], None, False, None
    owed = 0
    for w in out.split()[1:]:
        if tail is not None:
            tail = 'result-after-final:' + w
            break
        if w == 'pend':
            pend = True
            continue
        if w == 'pend!':
            # Pending although the transport never answered Pending during the call and the call did not wake itself:
            # nobody holds the waker, the frames already delivered are never acted on under a wake-driven executor
            tail = 'pending-without-a-wake-up'
            continue
        pend = False
        if w.startswith('f:'):
            toks.append(w)
            if w.startswith('f:wt:'):
                tail = 'handover'
            if w.startswith('f:data:'):
                owed = int(w[7:])
        elif w.startswith('d:'):
            h = w[2:]
            toks += ['b' + h[i:i + 2] for i in range(0, len(h), 2)] if h != '-' else []
            owed -= len(h) // 2 if h != '-' else 0
            if h == '-' or owed < 0:
                tail = 'bad-data-piece'
        elif w == 'none':
            # poll_data says "this DATA frame is finished": only right when every declared byte was handed out
            if owed != 0:
                tail = 'data-end-with-%d-bytes-owed' % owed
        elif w == 'end':
            tail = 'clean'
        elif w == 'err:end':
            tail = 'frameerror'
        elif w.startswith('err:proto:'):
            p = w.split(':')
            kind = {'malformed': 'malformed', 'value': 'malformed', 'forbidden': 'forbidden', 'settings': 'settings'}.get(p[2], 'other-' + p[2])
            tail = 'proto:' + kind + (':' + p[4] if kind == 'forbidden' and len(p) > 4 else '')
            code = p[3]
        elif w.startswith('err:quic:'):
            tail = 'aborted:' + w[len('err:quic:'):]
        else:
            tail = 'unparsed:' + w
    return toks, tail, pend, code


def parse_spec(spec):
    w = spec.split()
    i = w.index('T')
    toks = []
    for x in w[1:i]:
        if x.startswith('b:'):
            h = x[2:]
            toks += ['b' + h[j:j + 2] for j in range(0, len(h), 2)]
        else:
            toks.append(x)
    tail = w[i + 1]
    code = None
    for x in w[i + 2:]:
        if x.startswith('code='):
            code = x[5:]
    return toks, tail, code


class P(Property):
    id = 'C02'
    gen_modules = ['gen_varint', 'gen_codes', 'gen_frames']
    properties_v = 'Properties/C02.v'
    model_targets = ['Model/FrameStream.vo', 'Spec/Frames.vo']
    extract_v = 'Extract/ExtractC02.v'
    driver_ml = 'C02_driver.ml'
    harness_bin = 'c02'
    rule = ('fs: every byte string of total length <= 5 (quick) / <= 7 (thorough) made of complete or truncated frames over '
            'the alphabet {all known types, the 4 HTTP/2-reserved types, unknown types, WebTransport header; 1/2(/4)-byte '
            'forms of type and length; payload lengths 0..k; field payloads over {04,40(,00,80)}, SETTINGS payloads over '
            '{01,40,04(,21)}, opaque payloads that look like frame headers; at most one frame per string from the full '
            'alphabet, the others from {DATA, HEADERS, GOAWAY, unknown}} x every composition into chunks (length <= 5; a '
            'seeded 8 of 32 for length 6 and 3 of 64 for length 7) x {FIN, RESET, open} x {all arrivals then polls, polls '
            'after every arrival}; plus seeded random long '
            'streams (realistic frames, mutated lengths/payloads, truncations) with random chunkings and random '
            'interleavings of arrivals and calls, some with out-of-contract poll_next/poll_data calls; further unknown types '
            '(0x0e, ORIGIN 0x0c, 0x40, ACCEPT_CH 0x89, PRIORITY_UPDATE 0xf0700/1, 8-byte grease) and HTTP/2 types with payloads of '
            '0/3/63/64/16383/16384 bytes (1/2/4-byte and non-minimal 2/4/8-byte length varints) alone, inside and before other '
            'frames; runs of 20..300 unknown / grease / zero-length DATA / 1-byte DATA / mixed frames followed by HEADERS, whole, one '
            'frame per chunk and randomly chunked; fd: Frame::decode on every alphabet string and on random ones against one step '
            'of the reference reader; 8-byte declared lengths 2^32, 2^32+k, 2^40, 2^62-1 for DATA / HEADERS / unknown (fs and fd); hc: '
            '~290 streams ending in a frame-layer error (also after trailers) fed to the REAL server / client request path and to the '
            'control stream (poll_control) before and after SETTINGS, each in three arrival patterns (all queued before the first '
            'poll, one chunk per frame, FIN late), the close code observed on the transport; fe: the error-code table. non-trivial = distinct cases whose '
            'implementation result contains a frame, DATA bytes or a frame-layer error')

    def cases(self, tier, rng):
        out = []
        for k in ('malformed', 'forbidden', 'value', 'settings', 'streamid', 'pushid'):
            out.append('fe ' + k)
        k = 5 if tier == 'quick' else 7
        strs = strings_upto(k, tier)
        for s in strs:
            out.append('fd ' + s.hex())
            n = len(s)
            comps = list(compositions(n))
            endings = ENDINGS
            if n == 6:
                comps = rng.sample(comps, 8)       # thorough only: 8 of the 32 chunkings, seeded
            elif n == 7:
                comps = rng.sample(comps, 3)       # 3 of the 64, each with one seeded ending
            if n <= 3:
                endings = ENDINGS + FAILURES
            for parts in comps:
                ch = chunks_of(s, parts)
                if n == 7:
                    endings = (rng.choice(ENDINGS),)
                for e in endings:
                    out.append(batch(ch, e, n + 3))
                    # polls after every arrival: for the longest strings of the quick tier only with FIN
                    if len(ch) > 1 and (tier != 'quick' or n < 5 or e == 'F'):
                        out.append(incremental(ch, e, 1))
        out += ext_cases(rng, tier)
        out += run_cases_long(rng, tier)
        out += many_chunk_cases(rng, tier)
        out += hc_cases()
        out += big_length_cases(rng)
        for _ in range(4000 if tier == 'quick' else 60000):
            s = rand_stream(rng)
            out.append('fd ' + (s[:rng.randint(0, min(len(s), 40))].hex() or '-'))
            ch = rand_chunking(rng, s)
            e = rng.choice(['F', 'F', 'F', 'R%d' % rng.choice([0, 256, 268, 2 ** 40]), 'X%d' % rng.choice([256, 258]), 'T', 'I', 'K', 'XU', '', ''])
            out.append(random_interleaving(rng, ch, e, misuse=rng.random() < 0.1))
            out.append(batch(ch, e, 4 * len(ch) + 12))
        return out

    def canon(self, case, out):
        if out.startswith('panic'):
            return 'PANIC-OUTSIDE-A-CALL'
        # a panic inside a call is a result token; the model knows the site, the implementation only that it panicked
        return re.sub(r'panic:\d+', 'panic', out)

    def spec_ok(self, case, out, spec):
        if spec is None:
            return True
        w = case.split()
        if w[0] == 'fe':
            return spec.split()[1] in ('*', out.split()[1])
        if w[0] == 'fd':
            # Frame::decode on a flat buffer against one step of the reference reader (the Incomplete estimate is free)
            if spec.startswith('err incomplete'):
                return out.startswith('err incomplete:')
            return out == spec
        if w[0] == 'hc':
            return out == spec and out != 'code -'
        if w[0] != 'fs':
            return False
        acts = w[1].split(',') if len(w) > 1 else []
        out = self.canon(case, out)
        if not out.startswith('ok'):
            return False
        res = out.split()[1:]
        if 'panic' in res:
            # the only panic the contract allows: poll_next (`n`) called while DATA payload bytes are owed, and it is
            # the last result
            i = res.index('panic')
            calls = [a for a in acts if a in ('p', 'n', 'd')]
            if i != len(res) - 1 or i >= len(calls) or calls[i] != 'n':
                return False
            owed = 0
            for x in res[:i]:
                if x.startswith('f:data:'):
                    owed = int(x[7:])
                elif x.startswith('d:'):
                    owed -= len(x[2:]) // 2
            if owed <= 0:
                return False
            toks, tail, pend, code = parse_obs(' '.join(['ok'] + res[:i]))
            stoks, stail, scode = parse_spec(spec)
            return tail is None and toks == stoks[:len(toks)]
        toks, tail, pend, code = parse_obs(out)
        stoks, stail, scode = parse_spec(spec)
        arrivals = [a for a in acts if a[0] in 'c' + TERMINAL]
        ending, ending_act = '', ''
        for a in arrivals:
            if a[0] in TERMINAL:
                ending, ending_act = a[0], a
                break
        last_call = max([i for i, a in enumerate(acts) if a in ('p', 'n', 'd')], default=-1)
        complete = last_call >= 0 and not any(a[0] in 'c' + TERMINAL for a in acts[last_call + 1:])
        if toks != stoks[:len(toks)]:
            return False
        if tail is None:
            if pend and complete:
                # nothing more will arrive and the call is still pending: only right on an open stream, everything delivered
                return ending == '' and toks == stoks and stail == 'waiting'
            return True
        if tail == stail and toks == stoks:
            return code is None or scode is None or code == scode
        if tail == 'frameerror' and stail.startswith('frameerror'):
            return all(t.startswith('b') for t in stoks[len(toks):])
        if ending_act and ending_act[0] in 'RXTIK' and tail.startswith('aborted:'):
            # a reset / stream failure / connection loss may overtake frames that were already buffered: any prefix, then
            # exactly that failure (never a frame error, never something else)
            return tail == aborted_name(ending_act)
        return False

    def nontrivial_key(self, case, impl_out):
        if any(x in impl_out for x in (' f:', ' d:', 'err:proto', 'err:end', 'err unknown', 'err malformed', 'err unsupported', 'err settings')):
            return case
        if impl_out.startswith('ok f:'):
            return case
        return None

    def shrink_candidates(self, case):
        w = case.split()
        if w[0] != 'fs' or len(w) < 2:
            return []
        acts = w[1].split(',')
        out = []
        for i in range(len(acts)):
            out.append('fs ' + ','.join(acts[:i] + acts[i + 1:]))
        for i, a in enumerate(acts):
            if a[0] == 'c' and len(a) > 3:
                out.append('fs ' + ','.join(acts[:i] + [a[:-2]] + acts[i + 1:]))
                out.append('fs ' + ','.join(acts[:i] + ['c' + a[3:]] + acts[i + 1:]))
        return [c for c in out if c != 'fs ']


PROP = P()
