import itertools

from core import Property, spec_match

U64 = 2 ** 64
V62 = 2 ** 62
MAGS = [0, 1, 63, 64, 16383, 16384, 2 ** 30 - 1, 2 ** 30, 2 ** 62 - 1, 2 ** 62, U64 - 1]
KNOWN = [1, 6, 7, 8, 0x33, 0x2b603742, 0x2b603743]
RESERVED = [0, 2, 3, 4, 5]
GREASE_BOUND = 0x210842108421083
CHROME = 0xFFD277
DEFAULTS = {'mfs': V62 - 1, 'grease': 1, 'wt': 0, 'ec': 0, 'dg': 0, 'wtmax': 0}


def vi(x, l=None):
    if l is None:
        l = 1 if x < 64 else 2 if x < 16384 else 4 if x < 2 ** 30 else 8
    pre = {1: 0, 2: 1, 4: 2, 8: 3}[l]
    return ((pre << (8 * l - 2)) | x).to_bytes(l, 'big')


def parse_vi(b, pos):
    """-> (value, newpos) or None when cut short"""
    if pos >= len(b):
        return None
    l = 1 << (b[pos] >> 6)
    if pos + l > len(b):
        return None
    v = int.from_bytes(b[pos:pos + l], 'big') & ((1 << (8 * l - 2)) - 1)
    return v, pos + l


def parse_control_start(b):
    """bytes of a control stream that must be: 00, then ONE settings frame and nothing else.
    -> list of (id, value) or None"""
    if len(b) < 3 or b[0] != 0 or b[1] != 4:
        return None
    r = parse_vi(b, 2)
    if r is None:
        return None
    n, pos = r
    if pos + n != len(b):
        return None
    pairs = []
    while pos < len(b):
        r = parse_vi(b, pos)
        if r is None:
            return None
        i, pos = r
        r = parse_vi(b, pos)
        if r is None:
            return None
        v, pos = r
        pairs.append((i, v))
    return pairs


def is_grease(i):
    return i >= 33 and (i - 33) % 31 == 0


def payload_of(pairs, rng=None, forms=False):
    out = b''
    for i, v in pairs:
        if forms and rng is not None:
            li = rng.choice([l for l in (1, 2, 4, 8) if i < 2 ** (8 * l - 2)])
            lv = rng.choice([l for l in (1, 2, 4, 8) if v < 2 ** (8 * l - 2)])
            out += vi(i, li) + vi(v, lv)
        else:
            out += vi(i) + vi(v)
    return out


def match_words(out, spec):
    """like core.spec_match, and a spec word `key=*` accepts any value for that key"""
    a, b = out.split(), spec.split()
    if b and b[-1] == '**':
        b = b[:-1]
        a = a[:len(b)]
    if len(a) != len(b):
        return False
    for x, y in zip(a, b):
        if y == '*' or x == y:
            continue
        if y.endswith('=*') and x.startswith(y[:-1]):
            continue
        return False
    return True


class P(Property):
    id = 'C13'
    gen_modules = ['gen_varint', 'gen_codes', 'gen_settings']
    properties_v = 'Properties/C13.v'
    model_targets = ['Model/Settings.vo', 'Spec/RFC9114Settings.vo']
    extract_v = 'Extract/ExtractC13.v'
    driver_ml = 'C13_driver.ml'
    harness_bin = 'c13'
    trusted_extra = [
        'C13: the grease draw of fastrand cannot be steered from outside; impl and model bytes of `cfg` cases are compared after '
        'parsing them with the python reference parser in lib/props/c13.py and removing the one grease pair (identifier 31N+33, '
        'any value, required exactly when grease is on)',
        'C13: applied values are read through ConnectionState::settings() (Debug rendering of config::Settings plus its three public accessors)',
        'C13: SimQuic (harness/src/simquic.rs) is the transport under the real client/server builders for the `cfg` and `rx` cases',
    ]
    rule = ('cfg: both builders x every combination of the boolean options (client: extended-connect, datagram; server: + webtransport) '
            'x max_field_section_size and max_webtransport_sessions over {0,1,63,64,16383,16384,2^30-1,2^30,2^62-1,2^62,u64::MAX} '
            'x grease on/off, real connection setup over SimQuic with unlimited and 1..7-byte write quanta; the control stream bytes are '
            'parsed by the reference parser. cfg2: one builder used for two build() calls with more setter calls in between, both control streams judged. st.ins: insert sequences (permutations of known ids, duplicates, ids/values around 2^62, '
            '0..10 entries, long entries overflowing the 64-byte header). st.dec: SETTINGS payloads from the grammar (known, reserved, '
            'grease, unknown ids; every varint form; permutations; duplicates), every truncation of them, all payloads of 0..2 bytes, '
            'seeded random bytes, each under a random length form, with trailing bytes, handed over as a non-contiguous Buf (0..3 random cuts for every payload; every single cut and every pair of cuts for the hand-written payloads, their truncations and a sample of the generated ones). rx: the same payloads '
            'delivered on the peer control stream of a real client/server connection (both roles, receiver configuration drawn from the cfg quantifier; whole and in 1/2/5-byte chunks; optionally followed by a second SETTINGS frame; in 60% of the cases the control stream is opened after 1..3 other uni streams that stay silent: incomplete type varint, unknown/grease type, QPACK encoder/decoder, WebTransport type without its session id, no bytes at all), and in half of them the application is active before the SETTINGS are read (shutdown(), a request in flight, a request afterwards); the values in force are read through every public handle (SharedState, Connection, SendRequest, client/server RequestStream) and must agree. '
            'non-trivial = cfg: all; st.ins: at least one insert; st.dec/rx: the payload holds at least one complete entry')

    # ---- generators
    def quantifier(self, role):
        bools = list(itertools.product([0, 1], repeat=2 if role == 'c' else 3))
        wtmaxs = [0] if role == 'c' else MAGS
        for grease in (0, 1):
            for mfs in MAGS:
                for wtmax in wtmaxs:
                    for bs in bools:
                        if role == 'c':
                            wt, (ec, dg) = 0, bs
                        else:
                            wt, ec, dg = bs
                        yield (grease, mfs, wt, ec, dg, wtmax)

    def calls_for(self, rng, role, grease, mfs, wt, ec, dg, wtmax):
        vals = {'grease': grease, 'mfs': mfs, 'ec': ec, 'dg': dg}
        if role == 's':
            vals.update({'wt': wt, 'wtmax': wtmax})
        calls = []
        for k, v in vals.items():
            if v == DEFAULTS[k] and rng.random() < 0.5:
                continue
            calls.append((k, v))
        rng.shuffle(calls)
        if calls and rng.random() < 0.3:
            k, v = rng.choice(calls)
            other = (1 - v) if k in ('grease', 'wt', 'ec', 'dg') else rng.choice([x for x in MAGS if x != v])
            calls.insert(rng.randrange(0, calls.index((k, v)) + 1), (k, other))
        return ','.join('%s=%d' % c for c in calls) or '-'

    def long_payloads(self, rng, tier):
        """10..200 entries, mostly unknown and grease identifiers (each at most once for the known ones), known ones at
        the end; and payloads beyond 255 and 16383 bytes (2- and 4-byte frame length)"""
        outs = []
        def unknown():
            while True:
                i = rng.choice([33 + 31 * rng.randrange(GREASE_BOUND), rng.getrandbits(rng.choice([6, 14, 30, 62])), CHROME])
                if i not in KNOWN and i not in RESERVED:
                    return i
        sizes = [10, 16, 17, 18, 33, 64, 100, 200] + [rng.randint(10, 200) for _ in range(6 if tier == 'quick' else 200)]
        for n in sizes:
            pairs = [(unknown(), rng.getrandbits(rng.choice([6, 14, 30, 62]))) for _ in range(n)]
            tail = [(k, rng.choice([0, 1, 100, V62 - 1])) for k in rng.sample(KNOWN, rng.randint(1, 7))]
            outs.append(payload_of(pairs + tail, rng, rng.random() < 0.5))
            outs.append(payload_of(tail[:1] + pairs + tail[1:]))
        for n in ([1100] if tier == 'quick' else [1100, 1500, 3000]):
            pairs = [(33 + 31 * rng.randrange(2 ** 40, GREASE_BOUND), rng.getrandbits(62) | (1 << 61)) for _ in range(n)]
            outs.append(payload_of(pairs + [(6, 100)]))
        return outs

    def gen_pairs(self, rng):
        n = rng.choice([0, 1, 1, 2, 3, 4, 5, 6, 7, 8, 9])
        pairs = []
        for _ in range(n):
            k = rng.random()
            if k < 0.55:
                i = rng.choice(KNOWN)
            elif k < 0.65:
                i = rng.choice(RESERVED)
            elif k < 0.78:
                i = 33 + 31 * rng.choice([0, 1, 2, 1337, rng.randrange(GREASE_BOUND), GREASE_BOUND - 1])
            elif k < 0.85:
                i = CHROME
            else:
                i = rng.getrandbits(rng.choice([6, 14, 30, 62]))
            v = rng.choice([0, 1, 1, 2, 63, 64, 16383, 16384, 2 ** 30, V62 - 1, rng.getrandbits(rng.choice([6, 14, 30, 62]))])
            pairs.append((i, v))
        return pairs

    def dec_case(self, rng, payload, cuts=None, form=None, rest=None):
        n = len(payload)
        forms = [0] + [l for l in (1, 2, 4, 8) if n < 2 ** (8 * l - 2)]
        if form is None:
            form = rng.choice(forms)
        if rest is None:
            rest = bytes(rng.getrandbits(8) for _ in range(rng.choice([0, 0, 0, 1, 3])))
        if cuts is None:
            total = 1 + n + len(rest) + (form or 1)
            k = rng.choice([0, 0, 1, 2, 3])
            cuts = sorted({rng.randrange(1, total + 1) for _ in range(k)})
        return 'st.dec %d %s %s %s' % (form, payload.hex() or '-', rest.hex() or '-', '.'.join(map(str, cuts)) or '0')

    def all_cuts(self, rng, payload):
        """the same frame handed to the decoder as a non-contiguous Buf: every single cut and every pair of cuts"""
        out = []
        n = len(payload)
        form = rng.choice([0] + [l for l in (1, 2, 4, 8) if n < 2 ** (8 * l - 2)])
        rest = bytes(rng.getrandbits(8) for _ in range(rng.choice([0, 1])))
        total = 1 + (form or len(vi(n))) + n + len(rest)
        for a in range(1, total):
            out.append(self.dec_case(rng, payload, [a], form, rest))
        for a in range(1, total):
            for b in range(a + 1, total):
                out.append(self.dec_case(rng, payload, [a, b], form, rest))
        return out

    def cases(self, tier, rng):
        out = ['dflt']
        # ---- every builder configuration of the quantifier, over the real setup path; the setters are called in a
        # random order, setters whose value is the default are sometimes left out, sometimes a setter is called twice
        for role in ('c', 's'):
            for (grease, mfs, wt, ec, dg, wtmax) in self.quantifier(role):
                g = rng.choice([0, 1, 2, 1337, GREASE_BOUND - 1, rng.randrange(GREASE_BOUND)])
                if tier == 'quick' and role == 's' and rng.random() < 0.5 and not (mfs >= V62 or wtmax >= V62):
                    q = 0
                else:
                    q = rng.choice([0, 0, 1, 2, 3, 7])
                out.append('cfg %s %s %d %d' % (role, self.calls_for(rng, role, grease, mfs, wt, ec, dg, wtmax), g, q))
        # each setter alone, and every ordered pair of setters, with non-default values
        nd = {'mfs': 77, 'grease': 0, 'wt': 1, 'ec': 1, 'dg': 1, 'wtmax': 9}
        for role, names in (('c', ['mfs', 'grease', 'ec', 'dg']), ('s', ['mfs', 'grease', 'wt', 'ec', 'dg', 'wtmax'])):
            out.append('cfg %s - 5 0' % role)
            for a in names:
                out.append('cfg %s %s=%d 5 0' % (role, a, nd[a]))
                for b in names:
                    if a != b:
                        out.append('cfg %s %s=%d,%s=%d 5 0' % (role, a, nd[a], b, nd[b]))
                        out.append('cfg %s %s=%d,%s=%d,%s=%d 5 0' % (role, a, nd[a], b, nd[b], a, DEFAULTS[a]))
        # ---- one builder used for two connections, more setter calls between the two build() calls
        ok_quant = {r: [x for x in self.quantifier(r) if x[1] < V62 and x[5] < V62] for r in 'cs'}
        for role in 'cs':
            out.append('cfg2 %s - - 3' % role)
            out.append('cfg2 %s mfs=1000,grease=0 - 3' % role)
            out.append('cfg2 %s mfs=1000,grease=0,dg=1,ec=1 mfs=7 3' % role)
            for _ in range(120 if tier == 'quick' else 4000):
                c1 = self.calls_for(rng, role, *rng.choice(ok_quant[role]))
                c2 = rng.choice(['-', '-', self.calls_for(rng, role, *rng.choice(ok_quant[role]))])
                out.append('cfg2 %s %s %s %d' % (role, c1, c2, rng.choice([0, 1337, GREASE_BOUND - 1])))
        # ---- insert sequences
        out.append('st.ins -')
        for k in range(1, 8):
            ids = KNOWN[:k]
            out.append('st.ins ' + ','.join('%d:%d' % (i, n + 1) for n, i in enumerate(ids)))
        for perm in itertools.permutations([6, 8, 0x33, 0x2b603742]):
            out.append('st.ins ' + ','.join('%d:%d' % (i, 7) for i in perm))
        for v in (V62 - 1, V62, V62 + 1, U64 - 1):
            out.append('st.ins 6:%d' % v)
            out.append('st.ins %d:1' % v)
            out.append('st.ins 8:1,%d:%d' % (v, v))
        out.append('st.ins 6:1,6:1')
        out.append('st.ins 6:1,8:1,6:2')
        out.append('st.ins ' + ','.join('%d:1' % (100 + i) for i in range(8)))
        out.append('st.ins ' + ','.join('%d:1' % (100 + i) for i in range(9)))
        out.append('st.ins ' + ','.join('%d:1' % (100 + i) for i in range(8)) + ',100:1')
        for k in range(1, 9):   # long entries: the header array overflows from some k on
            out.append('st.ins ' + ','.join('%d:%d' % (2 ** 40 + i, 2 ** 40) for i in range(k)))
            out.append('st.ins ' + ','.join('%d:%d' % (2 ** 20 + i, 2 ** 20) for i in range(k)))
        for _ in range(400 if tier == 'quick' else 40000):
            pairs = self.gen_pairs(rng)
            if rng.random() < 0.15 and pairs:
                j = rng.randrange(len(pairs))
                pairs[j] = (pairs[j][0], rng.choice([V62, U64 - 1, V62 + 5]))
            out.append('st.ins ' + (','.join('%d:%d' % p for p in pairs) or '-'))
        # ---- received payloads
        payloads = [b'']
        for a in range(256):
            payloads.append(bytes([a]))
        for a in range(0, 65536, 1 if tier != 'quick' else 3):
            payloads.append(a.to_bytes(2, 'big'))
        hand = [
            [(6, 100)], [(6, 100), (6, 100)], [(6, 1), (1, 2), (7, 3), (8, 1), (0x33, 1), (0x2b603742, 1), (0x2b603743, 9)],
            [(33, 1), (33, 2)], [(CHROME, 1), (CHROME, 1)], [(2, 0)], [(6, 5), (4, 0)], [(8, 2)], [(0x33, 2)], [(0x2b603742, 5)],
            [(6, V62 - 1), (0x2b603743, V62 - 1)], [(64, 0), (6, 7)],
        ]
        for perm in itertools.permutations([(6, 9), (8, 1), (0x33, 1), (0x2b603742, 1), (0x2b603743, 4)]):
            hand.append(list(perm))
        for r in RESERVED:
            hand.append([(r, 1)])
            hand.append([(6, 1), (r, 0), (8, 1)])
        for k in KNOWN:
            hand.append([(k, 1), (k, 1)])
            hand.append([(k, 1), (33, 0), (k, 2)])
        structured = []
        for pairs in hand:
            structured.append(payload_of(pairs))
            structured.append(payload_of(pairs, rng, True))
        for _ in range(1500 if tier == 'quick' else 150000):
            structured.append(payload_of(self.gen_pairs(rng), rng, rng.random() < 0.5))
        for p in structured:
            payloads.append(p)
        # every truncation of the hand-written ones, some of the random ones
        for p in structured[:len(hand) * 2] + structured[len(hand) * 2::(20 if tier == 'quick' else 5)]:
            for t in range(1, len(p)):
                payloads.append(p[:t])
        for _ in range(2000 if tier == 'quick' else 200000):
            payloads.append(bytes(rng.getrandbits(8) for _ in range(rng.randint(3, 14))))
        longs = self.long_payloads(rng, tier)
        for p in payloads + longs:
            out.append(self.dec_case(rng, p))
        # non-contiguous buffers: all 1- and 2-cut splittings of the hand-written payloads and of a sample of the others
        for p in structured[:len(hand) * 2:(3 if tier == 'quick' else 1)] + structured[len(hand) * 2::(150 if tier == 'quick' else 15)]:
            if len(p) <= 24:
                out += self.all_cuts(rng, p)
            for t in (len(p) // 2, len(p) - 1):
                if 0 < t < len(p) <= 24:
                    out += self.all_cuts(rng, p[:t])
        # ---- the same through a real connection whose own configuration is drawn from the cfg quantifier; both roles
        rxs = [b''] + structured[:len(hand) * 2]
        for p in structured[:len(hand) * 2]:
            for t in range(1, len(p), 2):
                rxs.append(p[:t])
        rxs += structured[len(hand) * 2::(12 if tier == 'quick' else 3)] + longs[::(4 if tier == 'quick' else 1)]
        quants = {r: [x for x in self.quantifier(r) if x[1] < V62 and x[5] < V62] for r in 'cs'}
        PRES = ['40', 'c0', '80', '54', '21', '2100ff', '02', '03', '0', '4021', '8000']
        def rx_case(role, p, tail, chunk):
            n = len(p)
            # other uni streams opened before the control stream (each QPACK stream at most once); none in 40% of the cases
            pre = '-'
            if rng.random() < 0.6:
                items = rng.sample(PRES, rng.randint(1, 3))
                pre = ','.join(items)
            form = rng.choice([0] + [l for l in (1, 2, 4, 8) if n < 2 ** (8 * l - 2)])
            calls = self.calls_for(rng, role, *rng.choice(quants[role]))
            act = rng.choice(['-', '-', '-', 'sd', 'rq', 'ra', 'rqsd', 'rqra'])
            return 'rx %s %s %d %s %s %d %s %s' % (role, calls, form, p.hex() or '-', tail.hex() or '-', chunk, pre, act)
        for p in rxs:
            for role in 'cs':
                out.append(rx_case(role, p, b'', rng.choice([0, 0, 1, 2, 5]) if len(p) < 2000 else rng.choice([0, 1000])))
        # a second SETTINGS frame (same delivery and later), well-formed or not
        for p in ([b'', payload_of([(6, 100)]), payload_of([(6, 1), (33, 2), (0x33, 1)])] + structured[len(hand) * 2::(300 if tier == 'quick' else 30)]):
            for tail in (b'\x04\x00', b'\x04\x02\x06\x01', b'\x04\x02\x08\x01\x04\x00', b'\x04\x01\x06', b'\x04\x02\x02\x00',
                         b'\x04' + vi(len(p), 4) + p):
                for role in 'cs':
                    out.append(rx_case(role, p, tail, rng.choice([0, 0, 1, 3])))
        return out

    # ---- judging
    @staticmethod
    def grease_on(*callstrs):
        g = DEFAULTS['grease']
        for calls in callstrs:
            if calls != '-':
                for c in calls.split(','):
                    k, v = c.split('=')
                    if k == 'grease':
                        g = int(v)
        return g == 1

    @staticmethod
    def canon_stream(hexstr, grease_on):
        try:
            b = bytes.fromhex(hexstr)
        except ValueError:
            return 'nothex'
        pairs = parse_control_start(b)
        if pairs is None:
            return 'unparsable:' + hexstr
        gpos = [k for k, (i, _) in enumerate(pairs) if is_grease(i)]
        rest = [p for k, p in enumerate(pairs) if k not in gpos] if grease_on else pairs
        return 'len=%d grease@%s %s' % (len(b) if not grease_on else -1, ','.join(map(str, gpos)) if grease_on else '-',
                                        ','.join('%d:%d' % p for p in rest))

    def canon_cfg(self, case, out):
        w = out.split()
        c = case.split()
        if not w:
            return out
        if w[0] == 'panic':
            return 'panic'
        if c[0] == 'cfg2':
            if w[0] != 'ok' or len(w) != 3:
                return out
            return 'ok %s | %s' % (self.canon_stream(w[1], self.grease_on(c[2])), self.canon_stream(w[2], self.grease_on(c[2], c[3])))
        if w[0] != 'ok' or len(w) != 2:
            return out
        return 'ok ' + self.canon_stream(w[1], self.grease_on(c[2]))

    @staticmethod
    def stream_ok(hexstr, grease, want):
        """the bytes of a control stream against the spec's `<grease 0/1> id:v,...`"""
        try:
            b = bytes.fromhex(hexstr)
        except ValueError:
            return False
        if len(b) > 64:
            return False
        pairs = parse_control_start(b)
        if pairs is None:
            return False
        ids = [i for i, _ in pairs]
        if len(set(ids)) != len(ids) or any(i in RESERVED for i in ids):
            return False
        want = sorted(tuple(int(x) for x in p.split(':')) for p in want.split(','))
        g = [p for p in pairs if is_grease(p[0])]
        rest = sorted(p for p in pairs if not is_grease(p[0]))
        return len(g) == (1 if grease == '1' else 0) and rest == want

    def canon(self, case, out):
        fam = case.split()[0]
        w = out.split()
        if w and w[0] == 'panic':
            return 'panic'
        if fam in ('cfg', 'cfg2'):
            return self.canon_cfg(case, out)
        return out

    @staticmethod
    def close_ok(w):
        """`err CODE close=CxN`: the connection was closed and the code the peer sees is the code handed to the application"""
        return len(w) >= 3 and w[2].startswith('close=') and w[2][6:].split('x')[0] == w[1]

    def spec_ok(self, case, out, spec):
        if spec is None:
            return True
        fam = case.split()[0]
        w = out.split()
        if fam == 'rx' and w and w[0] == 'err' and spec.split()[0] == 'err':
            return match_words(out, spec) and self.close_ok(w)
        sw = spec.split()
        if fam == 'cfg2':
            return len(w) == 3 and w[0] == 'ok' and self.stream_ok(w[1], sw[1], sw[2]) and self.stream_ok(w[2], sw[3], sw[4])
        if fam != 'cfg':
            return match_words(self.canon(case, out), spec)
        if sw[0] == 'err':
            return w[:2] == sw[:2] and self.close_ok(w)
        # sw = ok <grease> id:v,id:v,...
        return len(w) == 2 and w[0] == 'ok' and self.stream_ok(w[1], sw[1], sw[2])

    def nontrivial_key(self, case, impl_out):
        w = case.split()
        if w[0] in ('cfg', 'cfg2'):
            return case
        if w[0] == 'st.ins':
            return case if w[1] != '-' else None
        if w[0] in ('st.dec', 'rx'):
            h = w[2] if w[0] == 'st.dec' else w[4]
            if h == '-':
                return None
            b = bytes.fromhex(h)
            r = parse_vi(b, 0)
            if r is None:
                return None
            r = parse_vi(b, r[1])
            return case if r is not None else None
        return None

    def shrink_candidates(self, case):
        w = case.split()
        if w[0] == 'st.dec' and w[2] != '-' and len(w[2]) > 2:
            return ['st.dec 0 %s - 0' % (w[2][:-2]), 'st.dec 0 %s - 0' % (w[2][2:])]
        if w[0] == 'st.ins' and ',' in w[1]:
            ps = w[1].split(',')
            return ['st.ins ' + ','.join(ps[:-1]), 'st.ins ' + ','.join(ps[1:])]
        return []


PROP = P()
