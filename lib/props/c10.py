"""C10 - the field-section size limit is enforced exactly, in both directions."""
from core import Property, run_cases
from props.c11 import enc_section, fields_str, hx, STATIC

MAXL = 2 ** 62 - 1
REQ = [(b':method', b'GET'), (b':scheme', b'https'), (b':authority', b'a'), (b':path', b'/')]      # size 167
RESP = [(b':status', b'200')]                                                                    # size 42


def size_of(fs):
    return sum(len(n) + len(v) + 32 for n, v in fs)


def extras_for(rng, total, single=False):
    """regular fields whose sizes add up to exactly `total` (0, or >= 33); None when not reachable"""
    if total == 0:
        return []
    if total < 33:
        return None
    names = [b'x', b'x-a', b'y', b'accept', b'x-long-header-name']
    out = []
    left = total
    while True:
        n = b'x' if single else rng.choice(names)
        if single or left < 2 * 33 + len(n) + 8 or rng.random() < 0.5:
            n = n if left >= 32 + len(n) else b'x'
            out.append((n, b'v' * (left - 32 - len(n))))
            return out
        take = rng.randint(32 + len(n), left - 33 - 8)
        out.append((n, b'v' * (take - 32 - len(n))))
        left -= take


def section_bytes(rng, fs, plain=False):
    prefix, lines, _ = enc_section(rng, fs, plain)
    return prefix + b''.join(lines)


def with_layout(rng, P):
    """realistic SETTINGS: MAX_FIELD_SECTION_SIZE first / middle / last among QPACK, datagram, connect and grease parameters"""
    P = str(P)
    if P == 'none':
        return P
    if P == '-':
        return rng.choice(['-', '-@c'])
    return P + rng.choice(['', '@f', '@m', '@l', '@m', '@l', '@u', '@u'])


RX_FLAGS = {
    ('srv', 'hdr'): ['chunks', 'second', 'chunks.second', 'after', 'after.grease', 'grease.pchunk', 'after.pchunk.chunks'],
    ('srv', 'trl'): ['split', 'nodata', 'pend', 'chunks', 'second', 'split.pend', 'split.nodata', 'split.chunks.second',
                     'data', 'data.split', 'data.after', 'after.grease', 'data.pend.pchunk'],
    ('cli', 'hdr'): ['split', 'clone0', 'clone1', 'chunks', 'second', 'clone1.split', 'clone0.split.chunks',
                     'after', 'after.grease', 'clone1.after.pchunk', 'grease.split'],
    ('cli', 'trl'): ['split', 'nodata', 'pend', 'chunks', 'second', 'clone0.split', 'clone1.pend', 'split.nodata',
                     'data', 'data.split.after', 'after.grease.pchunk', 'data.pend'],
}


def k_ok(role_kind, k):
    base = {'req': 167, 'resp': 42, 'trl': 0}[role_kind]
    return k == base or k >= base + 33


def expected_fields(role, tag, k):
    base_fs, base = (REQ, 167) if (role == 'cli' and tag == 'H') else (RESP, 42) if tag == 'H' else ([], 0)
    if k == base:
        return base_fs
    return base_fs + [(b'x', b'v' * (k - base - 33))]


class P(Property):
    id = 'C10'
    gen_modules = ['gen_codes', 'gen_static', 'gen_qstateless', 'gen_limits', 'gen_settings', 'gen_prefixint', 'gen_huffman', 'gen_huffman_enc', 'gen_prefixstring', 'gen_bitwin', 'gen_huffiter']
    properties_v = 'Properties/C10.v'
    model_targets = ['Model/SectionLimit.vo', 'Spec/RFC9204Static.vo', 'Spec/FieldSize.vo']
    extract_v = 'Extract/ExtractC10.v'
    driver_ml = 'C10_driver.ml'
    harness_bin = 'c10'
    rule = ('real h3 server / client over SimQuic with a scripted peer. lim.rx: configured limits L in {0,1,41,42,43,166..169,200,300,1000,'
            '65535,65536,2^32,2^62-1, seeded} x valid field sections (independent python encoder: raw/Huffman strings, non-minimal integers, '
            '1..4 regular fields) whose RFC 9114 size sweeps L-2..L+2 plus seeded others x request / response / request trailers / response '
            'trailers x peer SETTINGS carrying MAX_FIELD_SECTION_SIZE in {absent frame, absent parameter, 0, 41, 42, 43, 1000, 2^62-1} (decides '
            'whether the 431 answer is written); observed: delivered or header-too-big, error scope, the HEADERS payload written in reaction '
            '(decoded by the reference decoder: must be :status 431), stop/reset codes, connection close. lim.rx variants: the stream split() and its receive half used, the request sent through a clone of SendRequest taken before / after the peer SETTINGS (small own limit with a generous peer and the reverse), trailers read without recv_data, recv_trailers first polled before the FIN, the HEADERS frame in three chunks, the second request stream, a DATA frame before the trailers, a further minimal message on the next stream after the outcome (refused or not) which must be judged on its own, send_grease(true), the peer control stream one octet at a time; lim.tx roles cli.clone0 / cli.clone1 / cli.split / srv.split send through cloned handles and the send half of split() with peer limits below the section size; peer SETTINGS are realistic (QPACK, datagram, extended-connect and grease parameters with MAX_FIELD_SECTION_SIZE first / middle / last / absent); lim.adv: the MAX_FIELD_SECTION_SIZE each endpoint writes in its own SETTINGS equals the configured limit. lim.tx: own limit (irrelevant, '
            'varied) x peer limit P in {absent,0,1,41,42,43,75,167,199..202,1000,2500,8192 (16383, 16384, 40000 in thorough),2^32,2^62-1, seeded} x programs of send_request / '
            'send_response / send_trailers (sizes up to 2500: the extracted Huffman encoder model is quadratic) with sizes P-2..P+2 and seeded others, with the peer SETTINGS applied before, between or after '
            'the send attempts or never, and (lim.txw) while send_request is parked waiting for stream credit (0 bidirectional credit, SETTINGS processed, then credit granted); observed per call: Ok or HeaderTooBig and exactly what was written (decoded by the reference '
            'decoder: must be the intended field list). non-trivial = lim.rx cases with a valid section, lim.tx cases with a send call')
    trusted_extra = [
        'harness/src/bin/c10.rs scripted peer: builds the SETTINGS / HEADERS frames the peer sends and parses the frames h3 writes',
        'the field list h3 derives from an http::Request / Response / HeaderMap (Header::request etc.) is C12\'s subject; here messages '
        'are GET https://a/ , status 200 and one regular field x: vvv..',
    ]

    # ------------------------------------------------------------------ cases
    def cases(self, tier, rng):
        out = []
        quick = tier == 'quick'
        limits = [0, 1, 41, 42, 43, 166, 167, 168, 169, 200, 300, 1000, 65535, 65536, 2 ** 32, MAXL]
        limits += [rng.randint(44, 3000) for _ in range(6 if quick else 60)]
        peers = ['none', '-', '0', '41', '42', '43', '1000', str(MAXL)]

        def rx(role, kind, L, P, fs, plain=False, flags=None):
            sec = hx(section_bytes(rng, fs, plain))
            out.append('lim.rx %s %s %d %s %s' % (role, kind, L, with_layout(rng, P), sec))
            if flags is None and rng.random() < 0.5:
                flags = rng.choice(RX_FLAGS[(role, kind)])
            if flags:
                if 'second' in flags and role == 'srv' and L < 167:
                    flags = flags.replace('.second', '').replace('second', 'chunks')
                if 'second' in flags and role == 'cli' and L < 42:
                    flags = flags.replace('.second', '').replace('second', 'chunks')
                out.append('lim.rx %s %s.%s %d %s %s' % (role, kind, flags, L, with_layout(rng, P), sec))

        for L in limits:
            for role, kind, base_fs in (('srv', 'hdr', REQ), ('cli', 'hdr', RESP), ('srv', 'trl', []), ('cli', 'trl', [])):
                if kind == 'trl' and L < (167 if role == 'srv' else 42):
                    continue
                base = size_of(base_fs)
                targets = {L + d for d in (-2, -1, 0, 1, 2)} | {base, base + 33, base + 34}
                if L > 200000:
                    targets = {base, base + 33, base + 100, rng.randint(base + 33, base + 5000)}
                for _ in range(2 if quick else 6):
                    targets.add(rng.randint(base, max(base + 40, min(L + 400, 70000))))
                for t in sorted(targets):
                    if t < base or t > 150000:
                        continue
                    ex = extras_for(rng, t - base)
                    if ex is None:
                        continue
                    fs = base_fs + ex
                    assert size_of(fs) == t
                    # a client must first get its own request past the peer's limit: only generous peers there
                    ps = peers if (role == 'srv' and kind == 'hdr' and abs(t - L) <= 2) else \
                        [rng.choice(peers if role == 'srv' else ['none', '-', '1000', str(MAXL)])]
                    for P in ps:
                        # big sections with raw strings only: the extracted Huffman model is quadratic in the string length
                        rx(role, kind, L, P, fs, plain=(t > 3000 or rng.random() < 0.3))
        # every handle variant at the boundary of a middle-sized limit: split halves, cloned SendRequest (before / after the
        # peer's SETTINGS), trailers without recv_data, recv_trailers polled before the FIN, chunked HEADERS, second stream
        for L in (200, 1000):
            for (role, kind), flagsets in RX_FLAGS.items():
                base_fs = REQ if (role, kind) == ('srv', 'hdr') else RESP if (role, kind) == ('cli', 'hdr') else []
                for fl in flagsets:
                    for t in (L - 1, L, L + 1, size_of(base_fs) if base_fs else 34):
                        ex = extras_for(rng, t - size_of(base_fs))
                        if ex is None:
                            continue
                        P = rng.choice(peers) if role == 'srv' else rng.choice(['none', '-', '1000', str(MAXL)])
                        rx(role, kind, L, P, base_fs + ex, flags=fl)
        # the own limit must not be confused with the peer's: small own / generous peer and the reverse, through every client handle
        for fl in ('', 'clone0', 'clone1', 'split', 'clone0.split', 'clone1.split'):
            for L, P, t in ((100, '1000', 200), (100, str(MAXL), 101), (100, '-', 100), (100, 'none', 200), (1000, '170', 200),
                            (1000, '167', 1000), (1000, '170', 1001), (42, '1000', 42), (41, '1000', 42)):
                ex = extras_for(rng, t - 42, single=True)
                kind = 'hdr' + ('.' + fl if fl else '')
                out.append('lim.rx cli %s %d %s %s' % (kind, L, with_layout(rng, P), hx(section_bytes(rng, RESP + ex, True))))
                if t - 42 >= 33 or t == 42:
                    out.append('lim.rx cli trl%s %d %s %s' % ('.' + fl if fl else '', max(L, 42), with_layout(rng, P),
                                                                hx(section_bytes(rng, extras_for(rng, max(t - 42, 0) or 0) or [], True))))
        # what each endpoint tells its peer: the advertised MAX_FIELD_SECTION_SIZE is the configured one
        for L in limits:
            out.append('lim.adv srv %d' % L)
            out.append('lim.adv cli %d' % L)
        # sections with static-table hits of every shape, sized around small limits
        for _ in range(40 if quick else 2000):
            fs = RESP + [rng.choice(STATIC) for _ in range(rng.randint(0, 4)) if True]
            fs = [f for f in fs if not f[0].startswith(b':') or f == RESP[0]]
            t = size_of(fs)
            for L in (t - 1, t, t + 1):
                rx('cli', 'hdr', L, rng.choice(['none', '-', '1000', str(MAXL)]), fs)
        # invalid sections (connection scope is C11's subject; here: no stream-level outcome is invented)
        for h in ('0500d9', '0080d9', '0000ff24', '000081', '00'):
            out.append('lim.rx cli hdr 1000 none ' + h)
            out.append('lim.rx srv hdr 1000 none ' + h)

        # ---- send side
        peer_limits = ['-', 0, 1, 41, 42, 43, 75, 76, 167, 199, 200, 201, 202, 1000, 2500, 2 ** 32, MAXL]
        peer_limits += [rng.randint(30, 2500) for _ in range(8 if quick else 80)]
        for role in ('cli', 'srv'):
            hk = 'req' if role == 'cli' else 'resp'
            for P in peer_limits:
                pv = MAXL if P == '-' else P
                near = [pv + d for d in (-2, -1, 0, 1, 2)] if pv <= 2500 else []
                hs = sorted({k for k in near + [167 if role == 'cli' else 42, rng.randint(200, 2500)] if k >= 0 and k_ok(hk, k)})
                ts = sorted({k for k in near + [0, 33, rng.randint(33, 2500)] if k >= 0 and k_ok('trl', k)})
                owns = [rng.choice([0, 100, 1000, MAXL])] if role == 'cli' else [rng.choice([167, 1000, MAXL])]
                Pn = P
                for own in owns:
                    P = with_layout(rng, Pn)
                    for k in hs:
                        out.append('lim.tx %s %d %s H%d' % (role, own, P, k))                # default limit in force
                        out.append('lim.tx %s %d %s S,H%d' % (role, own, P, k))              # peer limit in force
                        out.append('lim.tx %s %d %s H%d,S,H%d' % (role, own, P, k, k))       # SETTINGS arrive between two attempts
                    for k in ts:
                        h0 = 167 if role == 'cli' else 42
                        out.append('lim.tx %s %d %s H%d,T%d' % (role, own, P, h0, k))
                        out.append('lim.tx %s %d %s H%d,S,T%d' % (role, own, P, h0, k))
                        out.append('lim.tx %s %d %s S,H%d,T%d' % (role, own, P, h0, k))
                        out.append('lim.tx %s %d %s H%d,T%d,S,T%d' % (role, own, P, h0, k, k))
                    for _ in range(2 if quick else 20):
                        ops = []
                        for _ in range(rng.randint(1, 5)):
                            j = rng.random()
                            if j < 0.25 and 'S' not in ops:
                                ops.append('S')
                            elif j < 0.65:
                                k = rng.choice(hs + [rng.randint(200, 2000)])
                                ops.append('H%d' % k)
                            else:
                                ops.append('T%d' % rng.choice(ts))
                        out.append('lim.tx %s %d %s %s' % (role, own, P, ','.join(ops)))
        # ---- every SENDING handle reads the connection's settings: requests through a clone of SendRequest (taken before any
        #      SETTINGS / right after them), trailers on streams made by a clone, response and trailers on the send half of split()
        for var in ('cli.clone0', 'cli.clone1', 'cli.split', 'cli.clone0.split', 'cli.clone1.split'):
            for P in (0, 100, 166, 167, 168, 200, 1000, '-'):
                Pt = with_layout(rng, P)
                own = rng.choice([0, 100, MAXL])
                out.append('lim.tx %s %d %s S,H167' % (var, own, Pt))
                out.append('lim.tx %s %d %s H167,S,H167' % (var, own, Pt))
                out.append('lim.tx %s %d %s S,H167,H200,T33' % (var, own, Pt))
                out.append('lim.tx %s %d %s H167,T34,S,T34,T33,T0' % (var, own, Pt))
                out.append('lim.tx %s %d %s H167,S,H200,T40' % (var, own, Pt))
        for P in (0, 41, 42, 43, 75, 1000, '-'):
            Pt = with_layout(rng, P)
            out.append('lim.tx srv.split 167 %s S,H42,T0,T33' % Pt)
            out.append('lim.tx srv.split 1000 %s H42,S,H42,H75,T34' % Pt)
        for P in (0, 100, 166, 167, 168, 1000, '-'):
            for k in (167, 200):
                out.append('lim.txw cli.clone0 %d %s %d' % (rng.choice([0, MAXL]), with_layout(rng, P), k))
        # ---- back-pressure: the request call is parked on stream credit while the peer's SETTINGS arrive
        for P in ['-', 0, 1, 42, 166, 167, 168, 199, 200, 201, 202, 1000, MAXL] + [rng.randint(170, 2500) for _ in range(6 if quick else 60)]:
            pv = MAXL if P == '-' else P
            ks = {167, 200, rng.randint(200, 2500)} | ({pv + d for d in (-2, -1, 0, 1, 2)} if pv <= 2500 else set())
            for k in sorted(k for k in ks if k >= 0 and k_ok('req', k)):
                out.append('lim.txw cli %d %s %d' % (rng.choice([0, 100, MAXL]), with_layout(rng, P), k))
        # peer limits between 2500 and 2^32: the varint boundary of the frame length and a large one (a few cases only: the
        # extracted Huffman encoder model is quadratic in the string length)
        for Pb in ((8192,) if quick else (8192, 16383, 16384, 40000)):
            for d in (-1, 0, 1):
                out.append('lim.tx cli 0 %s S,H%d' % (with_layout(rng, Pb), Pb + d))
                out.append('lim.tx srv 1000 %s S,H%d,T%d' % (with_layout(rng, Pb), Pb + d, Pb - d))
        return out

    # ------------------------------------------------------------------ comparison
    def canon(self, case, out):
        # connection errors: scope and code only
        ws = []
        for tok in out.split():
            if tok.startswith('res=err:c:'):
                p = tok.split(':')
                tok = ':'.join(p[:3])
            ws.append(tok)
        return ' '.join(ws)

    def spec_ok(self, case, out, spec):
        if spec is None or spec.strip() == '**':
            return True
        a, b = self.canon(case, out).split(), spec.split()
        if len(a) != len(b):
            return False
        for x, y in zip(a, b):
            if y == 'log=~':
                # the statement demands: no connection error.  Stream aborts next to the refusal (stop_sending, reset) are free
                if not x.startswith('log=') or 'close' in x:
                    return False
                continue
            if y.endswith('+'):
                # "a HEADERS frame was written": its content is judged by the reference decoder in extra_checks
                if not x.startswith(y[:-1]) or x[len(y) - 1:] in ('-', '') or x[len(y) - 1:].startswith('?'):
                    return False
            elif x != y:
                return False
        return True

    def extra_checks(self, ctx):
        if not ctx['model_exe']:
            return []
        want, lines = [], []
        for c, i, m, s in ctx['rows']:
            w = c.split()
            if w[0] == 'lim.rx' and w[1] == 'srv' and w[2] == 'hdr':
                for tok in i.split():
                    if tok.startswith('tx=') and tok[3:] not in ('-',) and not tok[3:].startswith('?'):
                        lines.append('q.ref ' + tok[3:])
                        want.append((c, i, 'ok ' + fields_str([(b':status', b'431')])))
            elif w[0] == 'lim.txw':
                p = i.split()[1].split(':') if len(i.split()) > 1 else []
                if len(p) == 3 and p[1] == 'ok':
                    lines.append('q.ref ' + p[2])
                    want.append((c, i, 'ok ' + fields_str(expected_fields('cli', 'H', int(w[4])))))
            elif w[0] == 'lim.tx' and False:
                pass
            elif w[0] == 'lim.tx':
                ops = [o for o in w[4].split(',')]
                toks = i.split()[1:]
                for o, tok in zip(ops, toks):
                    p = tok.split(':')
                    if o[0] in 'HT' and len(p) == 3 and p[1] == 'ok':
                        lines.append('q.ref ' + p[2])
                        want.append((c, i, 'ok ' + fields_str(expected_fields(w[1].split('.')[0], o[0], int(o[1:])))))
        viol = []
        if lines:
            res = run_cases(ctx['model_exe'], lines)
            for (c, i, exp), r in zip(want, res):
                if r.split(' | ')[0].strip() != exp:
                    viol.append(('property-fails-on-input', {'input': c, 'impl': i, 'model': None,
                                                             'spec': 'reference decoder on the written HEADERS payload: %s (expected %s)' % (r[:160], exp[:160])}))
                    if len(viol) >= 3:
                        break
        return viol

    def nontrivial_key(self, case, impl_out):
        w = case.split()
        if w[0] == 'lim.rx':
            return case if len(w[5]) > 4 else None
        if w[0] in ('lim.txw', 'lim.adv'):
            return case
        return case if ('H' in w[4] or 'T' in w[4]) else None

    def shrink_candidates(self, case):
        w = case.split()
        if w[0] == 'lim.tx' and ',' in w[4]:
            ops = w[4].split(',')
            return ['%s %s %s %s %s' % (w[0], w[1], w[2], w[3], ','.join(ops[:k] + ops[k + 1:])) for k in range(len(ops))]
        return []


PROP = P()
