from core import Property

VMAX = 2 ** 62 - 1
WINS = [1, 2, 3, 5, 7, 16, 61, 100, 1000, 4096, 10000, 65536, 1 << 20]
CODES = ([0, 1, 0x33, 63, 64, 16383, 16384, 2 ** 30 - 1, 2 ** 30, 2 ** 32 + 5, VMAX - 1, VMAX]
         + list(range(0x100, 0x111)) + [0x200, 0x201, 0x202])   # every H3_* / QPACK_* code, the varint form boundaries


def any_code(rng):
    """a peer code: a named one, a small arbitrary one, or an arbitrary 62-bit one"""
    return rng.choice([rng.choice(CODES), rng.randint(0, 0x400), rng.getrandbits(rng.choice([8, 14, 30, 62]))])
TIMING_QW = ('stop', 'close', 'timeout', 'areset', 'lclose')


def kv(case):
    w = case.split()
    return w[0], dict(x.split('=', 1) for x in w[1:] if '=' in x)


def fault_name(d, default):
    return d.get('fault', default).split(':')[0].split('@')[0]


def nothing_written(d):
    """qr: the peer ends the stream (fin / reset / close / silence) before it has written a single byte"""
    f = d.get('fault', 'fin')
    return d.get('chunks', '-') == '-' or (f.split(':')[0].split('@')[0] in ('reset', 'close', 'timeout') and f.endswith('@0'))


def tokens(out):
    w = out.split()
    return w[0], [tuple(x.split('=', 1)) if '=' in x else (x, '') for x in w[1:]]


def wire_len(chunks):
    n = sum(chunks)
    return 1 + (1 if n < 64 else 2 if n < 16384 else 4 if n < 2 ** 30 else 8) + n


def buf_total(b):
    """payload length of one buffer spec (a.b.c | hN | tT:a.b | yT); `-` = no buffer at all"""
    if b[0] in 'y-':
        return 0
    if b[0] == 'h':
        return int(b[1:])
    if b[0] == 't':
        b = b.split(':', 1)[1]
    return sum(int(x) for x in b.split('.'))


def buf_wire(b):
    if b == '-':
        return 0
    n = buf_total(b)
    vl = lambda v: 1 if v < 64 else 2 if v < 16384 else 4 if v < 2 ** 30 else 8
    if b[0] == 'y':
        return vl(int(b[1:]))
    pre = vl(int(b[1:].split(':')[0])) if b[0] == 't' else 0
    return pre + 1 + vl(n) + n


def split_chunks(rng, n):
    if n == 0:
        return [0]
    k = rng.choice([1, 1, 1, 2, 3, 4])
    cuts = sorted(rng.randint(0, n) for _ in range(k - 1))
    parts = [b - a for a, b in zip([0] + cuts, cuts + [n])]
    parts = [p for p in parts if p > 0]
    return parts or [0]


class P(Property):
    id = 'C17'
    gen_modules = ['gen_varint', 'gen_quinn']
    properties_v = 'Properties/C17.v'
    extra_targets = ['Refute/C17.vo']
    model_targets = ['Model/QuinnAdapter.vo', 'Spec/AdapterSpec.vo']
    extract_v = 'Extract/ExtractC17.v'
    driver_ml = 'C17_driver.ml'
    harness_bin = 'c17'
    harness_dir = 'harness-quinn'
    rule = ('every case is one fresh QUIC connection over loopback UDP between the h3-quinn adapter (side A, used only through the '
            'h3::quic traits) and a raw quinn peer, client or server role, streams opened by A (bidi, uni) or by the peer (uni, bidi), '
            '0..20 earlier streams so that ids vary.  qw: 1..6 DATA frames with payloads 0..64 KiB quick / 0..256 KiB thorough in 1..4 '
            'chunks (also 5..64 tiny chunks accepted inside one poll_ready call; a few 256 KiB payloads in the quick tier too), the adapter stream dropped right after finish with the peer reading afterwards (drop=1), peer stream window and connection window from 1 byte to 1 MiB (partial writes forced whenever the data exceeds the '
            'window), peer read sizes 1 byte..64 KiB, a second send_data attempted right after the first and/or at the first Pending of '
            'poll_ready, every kind of WriteBuf (DATA, HEADERS, stream type + DATA, stream type alone), raw bytes (0..64 KiB quick / 256 KiB thorough, 1 or 3 chunks) through poll_send afterwards - also with the peer stopping / closing / falling silent while poll_send is blocked -, poll_send attempted while a framed buffer is half written (must be refused), the pending write abandoned and the stream finished (cfin: everything accepted must still arrive, trunc=no), streams opened and connections closed through Connection itself, the opener() handle or a clone of it, send_id queried before/after send_data, while a write is pending, after completion, after finish; faults at '
            'seeded offsets (inside a buffer, exactly between two buffers, inside the raw poll_send bytes, or while poll_finish drains an abandoned write): peer STOP_SENDING(code), peer close(code), peer silent until the idle timeout, write after finish, local reset(code up to 2^64-1), local close(code). '
            'qr: peer writes 1..5 chunks; recv_id queried on a fresh stream, WHILE a read is pending, after that read was cancelled, after a '
            'deferred stop, after data, at the end; stop_sending issued while idle / while the read future owns the stream (once or twice); '
            'peer reset(code), close(code), idle timeout, local close; after such a failed read the same stream is polled again 1..3 times, asked for its id, stopped and polled once more (never a panic, connection errors repeat with the same code; '
            'the peer\'s RESET at a piece boundary / inside a piece / before any data is reported again by EVERY later read, never as end of stream: F23); the peer leaving the stream open (the case ends with a read in flight); a deferred stop going out with a read that completes with the end of the stream or an error; stop codes that are no varints (the call panics, the stream is untouched).  '
            'qw also: after a write that failed (peer STOP_SENDING(code) at a seeded offset, close, timeout, write after finish) 1..3 more rounds of send_data + poll_ready on the same stream (each accepted, each failing in the same class with the same code: F24), then a finish with a buffer in flight and one with nothing left, side A\'s connection still open; poll_ready on a stream with nothing to write, poll_send with an empty buffer, finish twice / finish, poll_ready and a second reset after a reset, no buffer at all, the stream dropped unfinished (Quinn finishes it) or after a reset.  '
            'qa: accept/open on a connection lost by peer close(code), local '
            'close, idle timeout, a stateless reset (ConnectionError::Reset: the peer forgot the connection, its CONNECTION_CLOSE dropped by a muted socket), and - thorough tier - a handshake failing after side A got its 0.5-RTT handle (peer\'s transport-level CONNECTION_CLOSE: ConnectionClosed; local TLS failure: TransportError), for poll_accept_recv/bidi and for poll_open_bidi/send of BOTH OpenStreams impls (Connection, opener() handle, its clone); close with a code that is no varint (panics, nothing closed).  qd: datagrams sent / received through the adapter\'s handlers (quarter ids over all varint forms, payloads '
            '0..1100 bytes), too large, datagrams disabled by the peer or by side A itself, and after peer close(code) / local close / idle timeout / stateless reset.  Codes: every H3_*/QPACK_* value 0x100..0x110, 0x200..0x202, 0x33, varint form boundaries, seeded small (0..0x400) and 8/14/30/62-bit values.  Compared: bytes received by the peer '
            '(length + FNV-1a) when no fault, prefix validity otherwise; refusal and its class; the set of ids reported and the id the '
            'peer sees; error class and code; end-of-stream condition and code seen by the peer.  Not compared (canonicalised): how many '
            'id queries happened, how Quinn split the writes, how much data arrived before a fault.  non-trivial = qw cases in which the '
            'data exceeds the smaller window (a partial write is certain), or with a fault or a double send; all qr and qa cases '
            '(each queries ids in a pending-read state or converts an error).')
    partial_note = ('partial: Quinn is an oracle in the Coq model (any accepted count, Pending anywhere, any error); real splitting, flow '
                    'control, timers, reliable in-order delivery and the mapping from peer actions to Quinn error values are exercised by the '
                    'loopback runs, not proved.')
    trusted_extra = [
        'quinn 0.11 / rustls / tokio as resolved by /repo/Cargo.lock: the real transport in the correspondence run (harness-quinn/)',
        'Spec.QuinnApi: the shape of Quinn\'s API answers (poll_write reports the length of the prefix it took; read_chunk yields a chunk, end, or an error)',
        'Spec.AdapterSpec.quinn_{write,read}_condition: which Quinn error a peer action produces (observed on real Quinn in every run)',
    ]

    # ------------------------------------------------------------------ generators
    def gen_qw(self, rng, big, fault_kind=None, want=None):
        """One qw case.  fault_kind: none|stop|close|timeout|afin|areset|lclose|cfin|nofin (None = seeded mix).
        want: None | 'ps' (raw bytes after the frames) | 'psfault' (the peer fault hits while poll_send is blocked)
        | 'dblp' | 'psp' (second send_data / poll_send at the first Pending of a buffer).
        A case that cannot realise what was asked for (e.g. too little data to be blocked at the fault) is
        generated again, never silently turned into something else."""
        for _ in range(200):
            c = self.gen_qw_once(rng, big, fault_kind, want)
            if c is not None:
                return c
        raise RuntimeError('gen_qw: cannot realise %s/%s' % (fault_kind, want))

    def gen_qw_once(self, rng, big, fault_kind, want):
        role = rng.choice('cs')
        kind = rng.choice(['bi', 'uni', 'bip'])
        via = rng.choice(['conn', 'opener', 'opener', 'clone'])
        skip = rng.choice([0, 0, 1, 2, 5, rng.randint(0, 20)])
        win = rng.choice(WINS)
        cwin = rng.choice(WINS + [1 << 22, 1 << 22])
        swin = 1 << 22
        fk = fault_kind or rng.choice(['none'] * 6 + ['stop', 'close', 'afin', 'areset', 'lclose', 'cfin'])
        if fk == 'nofin':
            want = 'drop'       # the stream is dropped unfinished: the peer reads afterwards
        if want == 'drop':
            win = rng.choice([1000, 4096, 65536, 1 << 20])
            cwin = 1 << 22
        if want is None and fk in ('none', 'stop', 'close', 'lclose'):
            want = rng.choice([None, None, 'ps'] + (['dblp', 'psp', 'many', 'drop'] if fk == 'none' else ['psfault', 'cf'] if fk != 'lclose' else []))
        if fk == 'timeout':
            win = min(win, 10000)    # the blocked writer must really be blocked with little data
        if fk == 'stop':
            # quinn-proto 0.11.17: a writer blocked on the stream window AND on a connection-level limit at the same
            # moment is never told about STOP_SENDING (Streams::poll drops it from connection_blocked without a
            # Writable event); keep the connection-level limits clear of the stream window in stop cases
            cwin = max(cwin, 2 * win + 64)
        eff = min(win, cwin)
        budget = eff * rng.choice([3, 50, 300]) if eff < 4096 else (256 * 1024 if big else 64 * 1024)
        budget = max(8, min(budget, 256 * 1024 if big else 64 * 1024))
        nb = rng.choice([1, 1, 2, 3, 4, 6])
        bufs = []
        left = budget
        for _ in range(nb):
            n = rng.choice([0, 1, 2, 61, 62, 63, 64, 65, rng.randint(0, max(1, left)), rng.randint(0, max(1, left // 4))])
            n = max(0, min(n, left))
            left -= n
            bufs.append(split_chunks(rng, n))
        if (big and eff >= 1000 and rng.random() < 0.12) or want == 'huge':
            if eff < 1000:
                return None
            bufs[rng.randrange(nb)] = split_chunks(rng, 256 * 1024)
        if nb and (want in ('many', 'drop') or rng.random() < 0.1):
            # a payload of 5..64 small chunks that fit the window: many accepted poll_write calls inside ONE poll_ready
            k = rng.randint(5, 64)
            bufs[rng.randrange(nb)] = [rng.randint(1, 4) for _ in range(k)]
        if want == 'drop':
            bufs = [b for b in bufs if sum(b) <= 300][:3] or [[7, 7]]
            nb = len(bufs)
        if want == 'empty' or (want in (None, 'drop') and fk in ('none', 'afin', 'nofin') and rng.random() < 0.06):
            # no buffer at all: the stream is finished (twice: afin) / dropped with nothing written
            bufs = []
            nb = 0
        # other kinds of WriteBuf: HEADERS frame, stream type + DATA frame, stream type alone
        specs = []
        for b in bufs:
            k = rng.choice('ddddddhty')
            ty = rng.choice([0, 2, 0x41, 0x54, 16384, 2 ** 30, 2 ** 62 - 1])
            if k == 'h':
                specs.append('h%d' % sum(b))
            elif k == 't':
                specs.append('t%d:%s' % (ty, '.'.join(map(str, b))))
            elif k == 'y':
                specs.append('y%d' % ty)
            else:
                specs.append('.'.join(map(str, b)))
        bufs = specs
        wires = [buf_wire(b) for b in bufs]
        total = sum(wires)
        # buffers that cannot be accepted in one go: poll_ready is certain to return Pending on them
        blocking = [j for j, w in enumerate(wires) if w > eff]
        ps = '-'
        if want in ('ps', 'psfault') or (want is None and fk == 'none' and rng.random() < 0.2) or (fk == 'nofin' and rng.random() < 0.3):
            cap = 256 * 1024 if big else 64 * 1024
            ps = rng.choice([0, 1, 100, rng.randint(0, max(1, min(budget, cap))), rng.randint(0, max(1, min(budget, cap)))])
            if want == 'psfault':
                ps = max(ps, eff + 17 + rng.randint(0, 3 * eff))
                if ps > cap:
                    return None
        psn = 0 if ps == '-' else int(ps)
        drop = 0
        if want == 'drop' or (fk == 'none' and want is None and total + psn + 64 <= min(win, cwin) and rng.random() < 0.5):
            # the stream is dropped right after finish, the peer reads afterwards: everything must fit the windows
            if total + psn + 64 > min(win, cwin):
                return None
            drop = 1
        # a small send window makes every step wait for an ACK (25 ms): only with little data
        sw = rng.choice([7, 100, 5000, 0, 0, 0])
        if sw and total + psn <= 30 * sw and not (fk == 'stop' and sw < 2 * win + 64) and fk != 'timeout':
            swin = sw
        rd = rng.choice([0, 0, 0, 1, 7, 100, 1000, 65536])
        if rd and (total + psn) // rd > 20000:
            rd = 0
        code = any_code(rng)
        fault = 'none'
        cf = '-'
        if fk in ('stop', 'close', 'timeout'):
            # the peer reads exactly n bytes and then stops / closes / falls silent; A must be blocked at that point:
            # either inside the framed buffers, or (psfault) inside the raw bytes sent with poll_send afterwards
            if want == 'psfault':
                lo, hi = total, total + psn - eff - 16
            else:
                lo, hi = 0, total - eff - 16
            if want == 'cf':
                # the write of buffer J is abandoned at its first Pending and poll_finish called: the peer fault hits
                # while poll_finish drains the buffer
                if not blocking:
                    return None
                cf = rng.choice(blocking)
                lo, hi = sum(wires[:cf]), sum(wires[:cf + 1]) - eff - 16
                cf = str(cf)
            if hi < lo:
                return None
            at = rng.randint(lo, hi)
            bounds = [b for b in (sum(wires[:i]) for i in range(1, nb + 1)) if lo <= b <= hi]
            if want is None and bounds and rng.random() < 0.4:
                at = rng.choice(bounds)      # exactly between two buffers
            fault = ('timeout@%d' % at) if fk == 'timeout' else '%s:%d@%d' % (fk, code, at)
        elif fk == 'afin':
            fault = 'afin'
        elif fk == 'areset':
            fault = 'areset:%d@%d' % (rng.choice([code, 2 ** 62, 2 ** 64 - 1, code]), rng.randint(0, nb))
        elif fk == 'lclose':
            fault = 'lclose:%d@%d' % (code, rng.randint(0, nb))
        elif fk == 'cfin':
            if not blocking:
                return None
            fault = 'cfin@%d' % rng.choice(blocking)
        elif fk == 'nofin':
            fault = 'nofin'
        dbl = rng.choice(['-', '-', str(rng.randrange(nb))]) if nb else '-'
        dblp = psp = '-'
        if fk == 'none':
            if want == 'dblp' or (want is None and blocking and rng.random() < 0.3):
                if not blocking:
                    return None
                dblp = str(rng.choice(blocking))
            if want == 'psp' or (want is None and blocking and rng.random() < 0.3):
                if not blocking:
                    return None
                psp = str(rng.choice(blocking))
        if fk in ('stop', 'close', 'timeout', 'cfin'):
            # which buffer is in flight when the fault hits depends on timing
            dbl = '-'
        ids = rng.choice([31, 31, rng.randint(0, 31) | 8])   # bit 3 (after the writes) is reached in every run
        if drop:
            dblp = psp = '-'       # nothing is pending when everything fits the window
            if fk not in ('none', 'nofin', 'areset'):
                return None
        # poll_ready while there is nothing to write; more calls once the stream was finished / reset (a reset after a
        # finish is left out: whether the peer sees the FIN or the reset is a race)
        extra = ''
        if rng.random() < (0.5 if want == 'idle' else 0.12):
            extra += ' pr0=1'
        if fk in ('none', 'nofin') and rng.random() < (0.5 if want == 'idle' else 0.1):
            extra += ' pse=1'
        if fk in ('stop', 'close', 'timeout', 'afin') and (want == 'sa' or rng.random() < 0.3):
            # after the failed write: K more rounds of send_data + poll_ready (each accepted, each failing the way the
            # stream failed: F24), then - peer stop - a finish with a buffer in flight and one with nothing left
            extra += ' sa=%d' % (rng.choice([2, 2, 3]) if want == 'sa' else rng.choice([1, 2, 2, 3]))
        if (fk in ('none', 'areset') or (fk == 'afin' and not nb)) and (want == 'idle' or rng.random() < 0.15):
            ops = ['f', 'p'] + (['r%d' % rng.choice([0, code, 2 ** 62, 2 ** 64 - 1])] * 2 if fk == 'areset' else [])
            extra += ' tail=' + '.'.join(rng.choice(ops) for _ in range(rng.randint(1, 4)))
        return ('qw role=%s kind=%s via=%s skip=%d win=%d cwin=%d swin=%d bufs=%s seed=%d ids=%d dbl=%s dblp=%s psp=%s rd=%d ps=%s drop=%d cf=%s%s fault=%s'
                % (role, kind, via, skip, win, cwin, swin, ','.join(bufs) or '-', rng.randint(0, 255), ids,
                   dbl, dblp, psp, rd, ps, drop, cf, extra, fault))

    def gen_qr(self, rng, big, fault_kind=None):
        """One qr case.  fault_kind: fin|reset|close|timeout|lclose|open|pendend|badstop|resetre (None = seeded mix)."""
        badstop = fault_kind == 'badstop'
        if badstop:
            fault_kind = 'fin'
        # resetre: the peer resets at a piece boundary or inside a piece, and the stream is read AGAIN 2-3 times
        # (plus a recv_id query, a stop and one more read): the reset must be reported every time (F23)
        resetre = fault_kind == 'resetre'
        if resetre:
            fault_kind = 'reset'
        role = rng.choice('cs')
        kind = rng.choice(['bi', 'uni', 'bip'])
        skip = rng.choice([0, 0, 1, 3, rng.randint(0, 20)])
        win = rng.choice(WINS)
        cwin = rng.choice(WINS + [1 << 22, 1 << 22])
        eff = min(win, cwin)
        budget = eff * rng.choice([3, 50, 300]) if eff < 4096 else (256 * 1024 if big else 64 * 1024)
        budget = max(8, min(budget, 256 * 1024 if big else 64 * 1024))
        nc = rng.choice([1, 1, 2, 3, 5])
        chunks = []
        left = budget
        for _ in range(nc):
            n = max(1, min(left, rng.choice([1, 2, 100, rng.randint(1, max(1, left)), rng.randint(1, max(1, left // 4))])))
            left = max(1, left - n)
            chunks.append(n)
        total = sum(chunks)
        fk = fault_kind or rng.choice(['fin'] * 6 + ['reset', 'reset', 'close', 'close', 'lclose', 'open', 'pendend'])
        code = any_code(rng)
        stop = 'none'
        if fk == 'pendend':
            # a stop requested while a read is pending, and that read completes with the end of the stream or with an
            # error (nothing was written before): the deferred stop goes out with a failed / final read
            sc = rng.choice([c for c in CODES if c < VMAX] + [rng.getrandbits(61)])
            stop = '%d@%s' % (sc, rng.choice(['pend', 'pend', 'pend2']))
            fk = rng.choice(['fin', 'reset', 'reset', 'close'])
            if fk == 'fin':
                chunks, total, fault = [], 0, 'fin'
            else:
                fault = '%s:%d@0' % (fk, code)
        elif fk == 'open':
            # the peer leaves the stream open: the case ends with a read in flight
            fault = 'open'
            if rng.random() < 0.15:
                chunks, total = [], 0
        elif fk == 'fin':
            fault = 'fin'
            sc = rng.choice([c for c in CODES if c < VMAX] + [rng.getrandbits(61)])
            stop = rng.choice(['none', 'none', '%d@idle' % sc, '%d@pend' % sc, '%d@pend' % sc, '%d@pend2' % sc])
            if badstop or rng.random() < 0.04:
                # a code that is no varint: the call panics and leaves the stream alone (2^62-1@pend2: only the second call)
                when = rng.choice(['idle', 'pend', 'pend2', 'pend2'])
                bad = [2 ** 62, 2 ** 62 + rng.getrandbits(40), 2 ** 63 + 5]
                stop = '%d@%s' % (rng.choice(bad + ([VMAX] * 3 if when == 'pend2' else [2 ** 64 - 1])), when)
        elif fk == 'timeout':
            fault = 'timeout@%d' % rng.randint(0, total)
        elif fk == 'lclose':
            fault = 'lclose:%d' % code
        else:
            at = rng.randint(0, total)
            if resetre:
                bounds = [sum(chunks[:i]) for i in range(len(chunks) + 1)]
                inside = [b + 1 + rng.randrange(max(1, c - 1)) for b, c in zip(bounds, chunks) if c > 1]
                at = rng.choice(bounds if rng.random() < 0.5 or not inside else inside)
                code = rng.choice([code, rng.choice(list(range(0x100, 0x111)))])
            fault = '%s:%d@%d' % (fk, code, at)
        ids = rng.choice([63, 63, rng.randint(0, 63) | 32])   # bit 5 (at the end) is reached in every run
        via = rng.choice(['conn', 'opener', 'clone'])
        tail = ''
        if fk not in ('fin', 'open'):
            # after the failed read: poll again 1..3 times, recv_id, stop_sending, poll once more
            re = rng.choice([2, 3]) if resetre else rng.choice([0, 1, 1, 2, 3])
            if re:
                tail = ' re=%d restop=%s' % (re, rng.choice(['-', str(rng.choice([c for c in CODES if c <= VMAX]))]))
        return ('qr role=%s kind=%s via=%s skip=%d win=%d cwin=%d chunks=%s seed=%d ids=%d stop=%s fault=%s%s'
                % (role, kind, via, skip, win, cwin, ','.join(map(str, chunks)) or '-', rng.randint(0, 255), ids, stop, fault, tail))

    def cases(self, tier, rng):
        out = []
        big = tier != 'quick'
        q = tier == 'quick'
        nqw, nqr, nto = (60, 55, 3) if q else (2600, 2000, 60)
        # guaranteed minimum of every fault family and of every special observation, then the seeded mix
        for fk, n in (('none', 3), ('stop', 4), ('close', 4), ('timeout', 2), ('afin', 3), ('areset', 3), ('lclose', 3), ('cfin', 3)):
            for _ in range(n if q else 12 * n):
                out.append(self.gen_qw(rng, big, fk))
        for fk, want, n in (('none', 'ps', 6), ('none', 'dblp', 6), ('none', 'psp', 6), ('stop', 'psfault', 3), ('close', 'psfault', 3),
                            ('timeout', 'psfault', 2), ('lclose', 'ps', 2), ('none', 'drop', 8), ('none', 'many', 6), ('none', 'huge', 3),
                            ('stop', 'cf', 3), ('close', 'cf', 3), ('timeout', 'cf', 1)):
            for _ in range(n if q else 12 * n):
                out.append(self.gen_qw(rng, big, fk, want))
        for fk in ('fin', 'reset', 'close', 'lclose'):
            for _ in range(3 if q else 40):
                out.append(self.gen_qr(rng, big, fk))
        # families added for model coverage: the stream dropped unfinished / after a reset, finished twice with nothing
        # written, poll_ready on the idle stream and calls after finish / reset; reads that end pending, deferred stops
        # that go out with the end of the stream or an error, stop codes that are no varints
        for fk, want, n in (('nofin', None, 4), ('areset', 'drop', 2), ('afin', 'empty', 2), ('none', 'empty', 1),
                            ('none', 'idle', 4), ('areset', 'idle', 3), ('stop', 'sa', 8), ('close', 'sa', 2), ('afin', 'sa', 1)):
            for _ in range(n if q else 12 * n):
                out.append(self.gen_qw(rng, big, fk, want))
        for fk, n in (('open', 4), ('pendend', 6), ('badstop', 4), ('resetre', 8)):
            for _ in range(n if q else 12 * n):
                out.append(self.gen_qr(rng, big, fk))
        for _ in range(nqw):
            out.append(self.gen_qw(rng, big))
        for _ in range(nqr):
            out.append(self.gen_qr(rng, big))
        for _ in range(nto):
            out.append(self.gen_qr(rng, False, 'timeout'))
        # open / accept on a lost connection, through BOTH `impl OpenStreams` (Connection; opener() handle and its clone)
        for op in ('accept_recv', 'accept_bidi'):
            for role in 'cs':
                for c in ([rng.choice(CODES)] if q else CODES):
                    out.append('qa role=%s op=%s via=conn fault=close:%d' % (role, op, c))
                    out.append('qa role=%s op=%s via=%s fault=lclose:%d' % (role, op, rng.choice(['conn', 'opener', 'clone']), c))
            if not q:
                out.append('qa role=c op=%s via=conn fault=timeout' % op)
        for op in ('open_bidi', 'open_send'):
            for via in ('conn', 'opener', 'clone'):
                for role in ('cs' if not q else rng.choice(['c', 's'])):
                    for c in ([rng.choice(CODES)] if q else CODES):
                        out.append('qa role=%s op=%s via=%s fault=close:%d' % (role, op, via, c))
                        out.append('qa role=%s op=%s via=%s fault=lclose:%d' % (role, op, via, c))
                if not q or op == 'open_bidi':
                    out.append('qa role=%s op=%s via=%s fault=timeout' % (rng.choice('cs'), op, via))
        # a connection lost by a stateless reset (quinn::ConnectionError::Reset; A is the connecting side), and close
        # with a code that is no varint (the call panics, nothing is closed)
        for op in ('accept_recv', 'accept_bidi', 'open_bidi', 'open_send'):
            for via in ((rng.choice(['conn', 'opener', 'clone']),) if q else ('conn', 'opener', 'clone')):
                out.append('qa role=c op=%s via=%s fault=sreset' % (op, via))
            for c in ((rng.choice([2 ** 62, 2 ** 64 - 1]),) if q else (2 ** 62, 2 ** 62 + rng.getrandbits(40), 2 ** 64 - 1)):
                out.append('qa role=%s op=%s via=%s fault=lclose:%d' % (rng.choice('cs'), op, rng.choice(['conn', 'opener', 'clone']), c))
        # a handshake that fails after side A (accepting, 0.5-RTT handle) got its connection: the peer's transport-level
        # CONNECTION_CLOSE (ConnectionClosed) / a local TLS failure (TransportError); 2 s each
        if not q:
            for op in ('accept_recv', 'accept_bidi', 'open_bidi', 'open_send'):
                for f in ('pclosed', 'terr'):
                    out.append('qa role=s op=%s via=%s fault=%s' % (op, rng.choice(['conn', 'opener', 'clone']), f))
        for d in ('send', 'recv'):
            for _ in range(1 if q else 6):
                out.append('qd role=c dir=%s sid=%d len=%d seed=%d fault=sreset' % (d, 4 * rng.getrandbits(20), rng.randint(0, 1100), rng.randint(0, 255)))
        for _ in range(2 if q else 12):
            out.append('qd role=%s dir=send sid=%d len=%d seed=%d fault=ldisabled' % (rng.choice('cs'), 4 * rng.getrandbits(rng.choice([6, 30, 60])), rng.randint(0, 1100), rng.randint(0, 255)))
        # datagrams through the adapter's handlers
        for i in range(14 if tier == 'quick' else 300):
            role = rng.choice('cs')
            d = rng.choice(['send', 'recv'])
            sid = 4 * rng.choice([0, 1, 2, 63, 64, 16383, 16384, 2 ** 30 - 1, 2 ** 30, 2 ** 60 - 1, rng.getrandbits(60)])
            ln = rng.choice([0, 1, 2, 100, rng.randint(0, 1100)])
            f = rng.choice(['none', 'none', 'none', 'close:%d' % rng.choice(CODES), 'lclose:%d' % rng.choice(CODES)]
                           + (['toolarge', 'disabled'] if d == 'send' else []))
            if i < 2 or (tier != 'quick' and i < 12):
                f = 'timeout'
            if f == 'toolarge':
                ln = rng.choice([2000, 5000, 70000])
            out.append('qd role=%s dir=%s sid=%d len=%d seed=%d fault=%s' % (role, d, sid, ln, rng.randint(0, 255), f))
        return out

    # ------------------------------------------------------------------ comparison
    def canon_tokens(self, case, out):
        """dict of compared observables, or None when the result is not an `ok` line"""
        head, toks = tokens(out)
        if head != 'ok':
            return None
        fam, d = kv(case)
        t = dict(toks)
        if 'ids' in t and t['ids'] not in ('-', '*'):
            t['ids'] = ','.join(sorted(set(t['ids'].split(',')), key=lambda x: (len(x), x)))
        # `na` (Quinn never answered Pending where the generator made it certain) is NOT canonicalised away:
        # it shows up as a mismatch
        timing = False
        if fam == 'qw':
            fn = fault_name(d, 'none')
            timing = fn in TIMING_QW
            if fn == 'lclose':
                t['pid'] = '~'
        elif fam == 'qr':
            timing = fault_name(d, 'fin') not in ('fin', 'open') or d.get('stop', 'none') != 'none'
            if '@pend' in d.get('stop', 'none') and nothing_written(d):
                # the deferred stop goes to Quinn when the pending read completes - here with the end of the stream or
                # with the error itself: Quinn has nothing left to stop, the peer cannot see the request
                t['pstop'] = '~'
        if timing and t.get('pfx') == 'ok' and 'recv' in t:
            t['recv'] = '~'
        return t

    def canon(self, case, out):
        t = self.canon_tokens(case, out)
        if t is None:
            return ' '.join(out.split()[:2]) if out.startswith('panic') else out
        return 'ok ' + ' '.join('%s=%s' % (k, t[k]) for k in sorted(t))

    def spec_ok(self, case, out, spec):
        if spec is None:
            return True
        a, b = self.canon_tokens(case, out), self.canon_tokens(case, spec)
        if b is None:
            return out.split()[:1] == spec.split()[:1]
        if a is None:
            return False
        for k, v in b.items():
            if v == '*':
                continue
            if ',' in v and '*' in v.split(','):
                # a list with wildcard items (saf=ok/err:terminated:C,*)
                av, bv = a.get(k, '').split(','), v.split(',')
                if len(av) != len(bv) or any(y != '*' and x != y for x, y in zip(av, bv)):
                    return False
                continue
            if a.get(k) != v:
                return False
        return True

    def nontrivial_key(self, case, impl_out):
        fam, d = kv(case)
        if fam != 'qw':
            return case
        if fault_name(d, 'none') != 'none' or d.get('dbl', '-') != '-' or d.get('dblp', '-') != '-':
            return case
        total = sum(buf_wire(b) for b in d.get('bufs', '0').split(','))
        return case if total > min(int(d.get('win', 1 << 20)), int(d.get('cwin', 1 << 22))) else None

    def shrink_candidates(self, case):
        fam, d = kv(case)
        out = []

        def emit(dd):
            out.append(fam + ' ' + ' '.join('%s=%s' % (k, v) for k, v in dd.items()))
        if d.get('skip', '0') != '0':
            emit(dict(d, skip='0'))
        if fam == 'qw':
            bufs = [b for b in d.get('bufs', '0').split(',') if b != '-']
            fn = fault_name(d, 'none')
            # dblp / psp need a buffer larger than the window (Pending certain): do not shrink buffers under them
            pinned = d.get('dblp', '-') != '-' or d.get('psp', '-') != '-'
            if len(bufs) > 1 and fn == 'none' and not pinned:
                emit(dict(d, bufs=','.join(bufs[:-1]), dbl='-'))
                emit(dict(d, bufs=','.join(bufs[1:]), dbl='-'))
            if fn == 'none' and not pinned:
                for i, b in enumerate(bufs):
                    n = buf_total(b)
                    if not b[0].isdigit():
                        emit(dict(d, bufs=','.join(bufs[:i] + [str(n)] + bufs[i + 1:])))
                    elif '.' in b:
                        emit(dict(d, bufs=','.join(bufs[:i] + [str(n)] + bufs[i + 1:])))
                    elif n > 1:
                        emit(dict(d, bufs=','.join(bufs[:i] + [str(n // 2)] + bufs[i + 1:])))
                if d.get('ps', '-') != '-':
                    emit(dict(d, ps='-'))
            for k in ('dbl', 'dblp', 'psp'):
                if d.get(k, '-') != '-':
                    emit(dict(d, **{k: '-'}))
            if d.get('rd', '0') != '0':
                emit(dict(d, rd='0'))
        elif fam == 'qr':
            ch = d.get('chunks', '1').split(',')
            if len(ch) > 1 and fault_name(d, 'fin') in ('fin', 'lclose'):
                emit(dict(d, chunks=','.join(ch[:-1])))
            if d.get('stop', 'none') != 'none':
                emit(dict(d, stop='none'))
        return out


PROP = P()
