import re
from core import Property, spec_match
from props.c16 import enc


def rb(rng, n):
    return bytes(rng.getrandbits(8) for _ in range(n))


class P(Property):
    id = 'C18'
    gen_modules = ['gen_varint', 'gen_codes', 'gen_datagram']
    properties_v = 'Properties/C18.v'
    model_targets = ['Model/Datagram.vo', 'Model/ChunkedDatagram.vo', 'Spec/RFC9297.vo']
    extract_v = 'Extract/ExtractC18.v'
    driver_ml = 'C18_driver.ml'
    harness_bin = 'c18'
    rule = ('dg.enc: stream ids 4k x payloads x consumption patterns.  k: QUICK tier (what ./check and mutant_run use, seed 1) = every k in '
            '0..2^10, every 61st k up to 2^16+1, every varint form boundary 63/64, 16383/16384, 2^30-1/2^30, 2^60-1 and 300 seeded random k '
            '(6/14/30/60 bits); THOROUGH tier = every k in 0..2^16 plus 30000 random.  payloads: 0..9, 64, seeded random 0..1500 bytes in '
            '0..4 chunks; deterministically every length 1461..1500 x each header size 1/2/4/8 (k = 5, 64+, 16384+, 2^30+) and 40 large '
            'payloads (65..1500) behind a 1-byte header.  consumption: seeded mixes of chunk-bounded reads, raw advance(k), copy_to_bytes(k), '
            'get_u8, then a final drain by chunks / copy_to_bytes(remaining()) (the call h3-quinn makes) / BytesMut::put, with '
            'has_remaining() checked against remaining() at every step; stream ids not divisible by 4 must panic in Datagram::new.  '
            'dg.tx: the same on a REAL h3 server connection over SimQuic: get_datagram_sender(4k).send_datagram(payload), observing the one '
            'datagram the transport receives.  dg.dec: all byte strings of length 0..2, all forms at every truncation, quarter ids around '
            '2^60, seeded random strings of 3..9 bytes, payload lengths 0..63 exhaustively and 64..1500 sampled; dg.decc: the same wire bytes '
            'as non-contiguous buffers cut at every position (complete AND truncated varints, payloads up to 40 bytes), EVERY one of the '
            '2^(n-1) chunkings of each varint form (complete with 0..3 payload bytes, and every truncation), and payloads of 41..1500 bytes in '
            '2..8 chunks with at least one cut inside the quarter stream id; for dg.decc the MODEL column is Datagram::decode run on the '
            'same chunk list (Model/ChunkedDatagram.v over the bytes-crate provided methods) and both sides print the chunks of the payload '
            'buffer left behind (the specification column compares their concatenation).  dg.rx / dg.rxw: a QUIC '
            'datagram arrives at a real h3 server connection (before / while read_datagram is polled) with the connection driver running: '
            'what read_datagram returns and the code the transport is closed with.  non-trivial = distinct cases in which the payload is '
            'reached (dg.enc/dg.tx with a non-empty payload, dg.dec/dg.rx with a complete varint)')

    def cases(self, tier, rng):
        out = []
        ks = set(range(0, 2 ** 10 if tier == 'quick' else 2 ** 16 + 1))
        ks.update(range(2 ** 10, 2 ** 16 + 2, 61))     # quick tier: a thin but even cover of the 2- and 4-byte forms below 2^16
        for b in (63, 64, 16383, 16384, 2 ** 30 - 1, 2 ** 30, 2 ** 60 - 1):
            ks.add(b)
        for _ in range(300 if tier == 'quick' else 30000):
            ks.add(rng.getrandbits(rng.choice([6, 14, 30, 60])))
        for k in sorted(ks):
            sid = 4 * k
            n = rng.choice([0, 1, 2, 3, 7, 8, 9, 64, rng.randint(0, 1500)]) if k % 16 == 0 or k > 2 ** 16 else rng.choice([0, 1, 2, 5])
            payload = rb(rng, n)
            # split into chunks
            chunks = []
            rest = payload
            while rest:
                c = rng.randint(1, max(1, len(rest)))
                chunks.append(rest[:c])
                rest = rest[c:]
                if len(chunks) == 3:
                    if rest:
                        chunks.append(rest)
                    break
            pl = '.'.join(c.hex() for c in chunks) or '-'
            total = n + (1 if k < 64 else 2 if k < 16384 else 4 if k < 2 ** 30 else 8)
            steps = []
            left = total
            for _ in range(rng.randint(0, 6)):
                if left <= 0:
                    break
                r = rng.random()
                if r < 0.4:
                    a = rng.randint(1, 9)
                    steps.append('c%d' % a)
                    left -= min(a, left)  # upper bound of what a chunk read can take
                elif r < 0.6:
                    a = rng.randint(0, min(left, 12)) if rng.random() < 0.8 else rng.randint(0, left)
                    steps.append('a%d' % a)
                    left -= a
                elif r < 0.85:
                    a = rng.randint(0, min(left, 12)) if rng.random() < 0.8 else rng.randint(0, left)
                    steps.append('b%d' % a)       # copy_to_bytes(a): a provided Buf method an impl may override
                    left -= a
                else:
                    steps.append('g')             # get_u8
                    left -= 1
            drain = rng.choice(['d', 'd', 'B', 'B', 'P'])
            out.append('dg.enc %d %s %s %s' % (sid, pl, ','.join(steps) or '-', drain))
            if k % 64 == 0 or k > 2 ** 16:
                # the exact call h3-quinn's send_datagram makes, and BytesMut::put, on the untouched buffer
                out.append('dg.enc %d %s - B' % (sid, pl))
                out.append('dg.enc %d %s - P' % (sid, pl))
        def chunked(payload, parts):
            if not payload:
                return '-'
            cuts = sorted(set(rng.randint(1, len(payload)) for _ in range(parts - 1)) - {len(payload)})
            cs, prev = [], 0
            for c in cuts + [len(payload)]:
                cs.append(payload[prev:c])
                prev = c
            return '.'.join(c.hex() for c in cs if c)
        hdr_k = {1: 5, 2: 64 + 7, 4: 16384 + 9, 8: 2 ** 30 + 11}
        # every payload length 1461..1500 against every header size (1500 is the quantifier's upper end)
        for n in range(1461, 1501):
            for l in (1, 2, 4, 8):
                k = hdr_k[l] if n % 2 else {1: 63, 2: 16383, 4: 2 ** 30 - 1, 8: 2 ** 60 - 1}[l]
                pl = chunked(rb(rng, n), 1 + (n + l) % 4)
                out.append('dg.enc %d %s - %s' % (4 * k, pl, 'dBP'[(n + l) % 3]))
                if n >= 1497 or n % 8 == 0:
                    out.append('dg.enc %d %s a%d,b%d,c9,g %s' % (4 * k, pl, l - 1, 700 + n % 50, 'BPd'[(n + l) % 3]))
                    out.append('dg.tx %d %s' % (4 * k, pl))
        # the common stream ids (1-byte header) with large payloads
        for i in range(40):
            k = rng.choice([0, 1, 2, 3, 62, 63, rng.randint(0, 63)])
            n = rng.choice([65, 100, 255, 256, 1200, 1350, 1472, 1473, rng.randint(65, 1500)])
            pl = chunked(rb(rng, n), 1 + i % 4)
            out.append('dg.enc %d %s %s %s' % (4 * k, pl, rng.choice(['-', 'a1', 'c1,b64', 'g,g,a%d' % (n // 2)]), 'dBP'[i % 3]))
            out.append('dg.tx %d %s' % (4 * k, pl))
        # Datagram::new: a stream id that is not a client-initiated bidirectional one must be refused (assert)
        for sid in (1, 2, 3, 5, 6, 7, 9, 255, 257, 65534, 2 ** 32 + 1, 2 ** 62 - 1, 2 ** 62 - 2, 2 ** 62 - 3):
            out.append('dg.enc %d %s - B' % (sid, rb(rng, sid % 3).hex() or '-'))
            out.append('dg.tx %d %s' % (sid, rb(rng, sid % 5).hex() or '-'))
        # send_datagram on a real connection: every form, small and mid payloads, chunked
        tx_ks = list(range(0, 200)) + [63, 64, 16383, 16384, 2 ** 30 - 1, 2 ** 30, 2 ** 60 - 1] + \
            [rng.getrandbits(rng.choice([6, 14, 30, 60])) for _ in range(150 if tier == 'quick' else 15000)]
        for i, k in enumerate(tx_ks):
            n = rng.choice([0, 1, 2, 3, 7, 8, 9, 64, rng.randint(0, 1500)]) if i % 8 == 0 else rng.choice([0, 1, 2, 5, 12])
            out.append('dg.tx %d %s' % (4 * k, chunked(rb(rng, n), rng.randint(1, 4))))
        # decode
        ndec0 = len(out)
        out.append('dg.dec -')
        for a in range(256):
            out.append('dg.dec %02x' % a)
        for a in range(65536):
            out.append('dg.dec %04x' % a)
        vals = [0, 1, 63, 64, 16383, 16384, 2 ** 30 - 1, 2 ** 30, 2 ** 60 - 1, 2 ** 60, 2 ** 60 + 1, 2 ** 61, 2 ** 62 - 1]
        vals += [rng.getrandbits(62) for _ in range(200 if tier == 'quick' else 20000)]
        for x in vals:
            for l in (1, 2, 4, 8):
                if x < 2 ** (8 * l - 2):
                    e = enc(x, l)
                    for t in range(0, l + 1):
                        out.append('dg.dec ' + (e[:t].hex() or '-'))
                    out.append('dg.dec ' + e.hex() + rb(rng, rng.randint(1, 6)).hex())
        for _ in range(3000 if tier == 'quick' else 300000):
            out.append('dg.dec ' + rb(rng, rng.randint(3, 9)).hex())
        for _ in range(60 if tier == 'quick' else 3000):
            x = rng.getrandbits(rng.choice([6, 14, 30, 60]))
            out.append('dg.dec ' + enc(x, 1 if x < 64 else 2 if x < 16384 else 4 if x < 2 ** 30 else 8).hex() + rb(rng, rng.choice([64, 300, 1200, 1500])).hex())
        # payload lengths 0..63 exhaustively behind every header size, and a sample of everything up to 1500
        for n in list(range(0, 64)) + [rng.randint(64, 1500) for _ in range(40 if tier == 'quick' else 1500)] + [1472, 1473, 1499, 1500]:
            for l in (1, 2, 4, 8):
                x = {1: 7, 2: 300, 4: 70000, 8: 2 ** 31}[l] if n % 2 else rng.getrandbits(8 * l - 2)
                out.append('dg.dec ' + enc(x, l).hex() + rb(rng, n).hex())
        # the arrival of the same bytes at a real connection (everything above except the exhaustive 2-byte sweep, of which
        # every 7th string is taken); alternately before / while read_datagram is polled
        rx, i = [], 0
        for c in out[ndec0:]:
            h = c.split()[1]
            if len(h) == 4 and int(h, 16) % 7 != 0 and h[:2] not in ('40', '80', 'c0', 'ff'):
                continue
            i += 1
            rx.append('dg.%s %s' % ('rxw' if i % 3 == 0 else 'rx', h))
        out += rx
        # the same wire bytes as non-contiguous buffers, cut at every position
        for x in vals[:40 if tier == 'quick' else 2000]:
            for l in (1, 2, 4, 8):
                if x < 2 ** (8 * l - 2):
                    e = enc(x, l) + rb(rng, rng.randint(0, 4))
                    for i in range(1, len(e)):
                        out.append('dg.decc %s.%s' % (e[:i].hex(), e[i:].hex()))
                        if i + 1 < len(e):
                            out.append('dg.decc %s.%s.%s' % (e[:i].hex(), e[i:i + 1].hex(), e[i + 1:].hex()))
        # truncated varints in non-contiguous buffers (every truncation, every cut), and longer payloads
        for x in vals[:13] + vals[13:13 + (12 if tier == 'quick' else 600)]:
            for l in (2, 4, 8):
                if x < 2 ** (8 * l - 2):
                    full = enc(x, l)
                    for t in range(2, l):
                        e = full[:t]
                        for i in range(1, len(e)):
                            out.append('dg.decc %s.%s' % (e[:i].hex(), e[i:].hex()))
                        out.append('dg.decc ' + '.'.join('%02x' % b for b in e))
        for j, x in enumerate(vals[:13] + vals[13:13 + (8 if tier == 'quick' else 400)]):
            for l in (1, 2, 4, 8):
                if x < 2 ** (8 * l - 2):
                    e = enc(x, l) + rb(rng, rng.choice([5, 9, 17, 40]))
                    for i in range(1, len(e), 1 if len(e) < 24 else 3):
                        out.append('dg.decc %s.%s' % (e[:i].hex(), e[i:].hex()))
                    a = rng.randint(1, l)
                    b2 = rng.randint(a + 1, len(e) - 1)
                    out.append('dg.decc %s.%s.%s' % (e[:a].hex(), e[a:b2].hex(), e[b2:].hex()))
        # EVERY chunking of every form (complete, with 0..3 payload bytes; and every truncation)
        def all_chunkings(bs):
            n = len(bs)
            for m in range(1 << (n - 1)):
                parts, prev = [], 0
                for i in range(1, n):
                    if m >> (i - 1) & 1:
                        parts.append(bs[prev:i])
                        prev = i
                parts.append(bs[prev:])
                yield '.'.join(p_.hex() for p_ in parts)
        out.append('dg.decc -')
        kk = 0
        for x in [0, 63, 64, 16383, 2 ** 30 - 1, 2 ** 60 - 1, 2 ** 60, 2 ** 62 - 1] + [rng.getrandbits(60) for _ in range(2 if tier == 'quick' else 40)]:
            for l in (1, 2, 4, 8):
                if x >= 2 ** (8 * l - 2):
                    continue
                e = enc(x, l)
                for t in range(1, l):
                    for ch in all_chunkings(e[:t]):
                        out.append('dg.decc ' + ch)
                for extra in (0, 1, 3):
                    for ch in all_chunkings(e + rb(rng, extra)):
                        kk += 1
                        if l == 8 and extra and kk % 4:
                            continue
                        out.append('dg.decc ' + ch)
        # long payloads (up to 1500 bytes) in 2..8 chunks, at least one cut inside the quarter stream id when it has 2+ bytes
        for i in range(200 if tier == 'quick' else 20000):
            x = rng.getrandbits(rng.choice([6, 14, 30, 60, 62]))
            l = 1 if x < 64 else 2 if x < 16384 else 4 if x < 2 ** 30 else 8
            if i % 5 == 0 and l < 8:
                l *= 2                                      # non-minimal form
            e = enc(x, l) + rb(rng, rng.choice([41, 64, 100, 255, 256, 1200, 1472, 1500, rng.randint(41, 1500)]))
            cuts = set(rng.randint(1, len(e) - 1) for _ in range(rng.randint(1, 7)))
            if l > 1:
                cuts.add(rng.randint(1, l - 1))
            cuts = sorted(cuts)
            out.append('dg.decc ' + '.'.join(e[a:b_].hex() for a, b_ in zip([0] + cuts, cuts + [len(e)])))
        return out

    def canon(self, case, out):
        # the text of a panic message is not constrained
        return 'panic' if out.startswith('panic') else out

    def spec_ok(self, case, out, spec):
        if spec is None:
            return True
        if case.startswith('dg.enc'):
            if spec == 'panic':
                return out.split()[0] == 'panic'
            flat = spec.split()[1]
            flat = '' if flat == '-' else flat
            w = out.split()
            if not w or w[0] != 'ok':
                return False
            pos = 0
            for tok in w[1:]:
                if tok.startswith('HR-MISMATCH'):
                    return False
                if re.fullmatch(r'r\d+', tok):
                    if int(tok[1:]) != (len(flat) // 2 - pos):
                        return False
                    continue
                if ':' in tok:
                    r, tok = tok.split(':', 1)
                    # remaining() must be the true rest at every step
                    if int(r[1:]) != (len(flat) // 2 - pos):
                        return False
                if tok.startswith('skip'):
                    pos += int(tok[4:])
                elif tok == '-':
                    pass
                else:
                    if flat[2 * pos: 2 * pos + len(tok)] != tok:
                        return False
                    pos += len(tok) // 2
            return pos == len(flat) // 2
        o = self.canon(case, out)
        if case.startswith('dg.decc'):
            # the oracle knows the flat payload only: forget the chunk boundaries of the payload buffer
            w = o.split()
            if len(w) == 3 and w[0] == 'ok':
                w[2] = w[2].replace('.', '') or '-'
                o = ' '.join(w)
        return spec_match(o, spec)

    def shrink_candidates(self, case):
        w = case.split()
        out = []
        if w[0] in ('dg.enc', 'dg.tx'):
            sid, pl = int(w[1]), w[2]
            rest = w[3:]
            flat = '' if pl == '-' else pl.replace('.', '')
            n = len(flat) // 2

            def mk(sid, flat, rest):
                return ' '.join([w[0], str(sid), flat or '-'] + rest)
            if w[0] == 'dg.enc' and rest and rest[0] != '-':
                out.append(mk(sid, pl if pl != '-' else '', ['-'] + rest[1:]))
            if '.' in pl:
                out.append(mk(sid, flat, rest))
            for m in (n // 2, n - 16, n - 1):
                if 0 <= m < n:
                    out.append(mk(sid, flat[:2 * m], rest))
            if flat and flat != '00' * n:
                out.append(mk(sid, '00' * n, rest))
            for s2 in (0, 4, 8, 256, sid // 8 * 4):
                if s2 < sid and s2 % 4 == sid % 4:
                    out.append(mk(s2, flat, rest))
        elif w[0] in ('dg.dec', 'dg.rx', 'dg.rxw') and w[1] != '-':
            h = w[1]
            for m in (len(h) // 4 * 2, len(h) - 2):
                if 0 <= m < len(h):
                    out.append('%s %s' % (w[0], h[:m] or '-'))
        return [c for c in out if c != case]

    def nontrivial_key(self, case, impl_out):
        w = case.split()
        if w[0] in ('dg.enc', 'dg.tx'):
            return case if w[2] != '-' else None
        return case if impl_out.startswith('ok') else None


PROP = P()
