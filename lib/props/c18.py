import re
from core import Property, spec_match
from props.c16 import enc


def rb(rng, n):
    return bytes(rng.getrandbits(8) for _ in range(n))


class P(Property):
    id = 'C18'
    gen_modules = ['gen_varint', 'gen_codes', 'gen_datagram']
    properties_v = 'Properties/C18.v'
    model_targets = ['Model/Datagram.vo', 'Spec/RFC9297.vo']
    extract_v = 'Extract/ExtractC18.v'
    driver_ml = 'C18_driver.ml'
    harness_bin = 'c18'
    rule = ('dg.enc: stream ids 4k (k over 0..2^10 quick / 0..2^16 thorough, every varint form boundary 63/64, 16383/16384, '
            '2^30-1/2^30, 2^60-1, seeded random k) x payloads of 0..1500 bytes split into 0..4 chunks x seeded consumption '
            'patterns mixing chunk-bounded reads, raw advance(k), copy_to_bytes(k), get_u8, and final drains by chunks / copy_to_bytes(remaining()) (the call h3-quinn makes) / BytesMut::put, with has_remaining() checked against remaining() at every step; dg.dec: all byte strings of length 0..2, all forms at '
            'every truncation, quarter ids around 2^60, seeded random strings of 3..9 bytes, and complete datagrams presented as non-contiguous buffers cut at every position (dg.decc). non-trivial = distinct cases in which '
            'the payload is reached (dg.enc with a non-empty payload or dg.dec with a complete varint)')

    def cases(self, tier, rng):
        out = []
        ks = set(range(0, 2 ** 10 if tier == 'quick' else 2 ** 16 + 1))
        for b in (63, 64, 16383, 16384, 2 ** 30 - 1, 2 ** 30, 2 ** 60 - 1):
            ks.add(b)
        for _ in range(300 if tier == 'quick' else 30000):
            ks.add(rng.getrandbits(rng.choice([6, 14, 30, 60])))
        for k in sorted(ks):
            sid = 4 * k
            n = rng.choice([0, 1, 2, 3, 7, 8, 9, 64, rng.randint(0, 1500)]) if k % 16 == 0 or k > 2 ** 16 else rng.choice([0, 1, 2, 5])
            payload = rb(rng, n)
            # split into chunks
            chunks = []
            rest = payload
            while rest:
                c = rng.randint(1, max(1, len(rest)))
                chunks.append(rest[:c])
                rest = rest[c:]
                if len(chunks) == 3:
                    if rest:
                        chunks.append(rest)
                    break
            pl = '.'.join(c.hex() for c in chunks) or '-'
            total = n + (1 if k < 64 else 2 if k < 16384 else 4 if k < 2 ** 30 else 8)
            steps = []
            left = total
            for _ in range(rng.randint(0, 6)):
                if left <= 0:
                    break
                r = rng.random()
                if r < 0.4:
                    a = rng.randint(1, 9)
                    steps.append('c%d' % a)
                    left -= min(a, left)  # upper bound of what a chunk read can take
                elif r < 0.6:
                    a = rng.randint(0, min(left, 12)) if rng.random() < 0.8 else rng.randint(0, left)
                    steps.append('a%d' % a)
                    left -= a
                elif r < 0.85:
                    a = rng.randint(0, min(left, 12)) if rng.random() < 0.8 else rng.randint(0, left)
                    steps.append('b%d' % a)       # copy_to_bytes(a): a provided Buf method an impl may override
                    left -= a
                else:
                    steps.append('g')             # get_u8
                    left -= 1
            drain = rng.choice(['d', 'd', 'B', 'B', 'P'])
            out.append('dg.enc %d %s %s %s' % (sid, pl, ','.join(steps) or '-', drain))
            if k % 64 == 0 or k > 2 ** 16:
                # the exact call h3-quinn's send_datagram makes, and BytesMut::put, on the untouched buffer
                out.append('dg.enc %d %s - B' % (sid, pl))
                out.append('dg.enc %d %s - P' % (sid, pl))
        # decode
        out.append('dg.dec -')
        for a in range(256):
            out.append('dg.dec %02x' % a)
        for a in range(65536):
            out.append('dg.dec %04x' % a)
        vals = [0, 1, 63, 64, 16383, 16384, 2 ** 30 - 1, 2 ** 30, 2 ** 60 - 1, 2 ** 60, 2 ** 60 + 1, 2 ** 61, 2 ** 62 - 1]
        vals += [rng.getrandbits(62) for _ in range(200 if tier == 'quick' else 20000)]
        for x in vals:
            for l in (1, 2, 4, 8):
                if x < 2 ** (8 * l - 2):
                    e = enc(x, l)
                    for t in range(0, l + 1):
                        out.append('dg.dec ' + (e[:t].hex() or '-'))
                    out.append('dg.dec ' + e.hex() + rb(rng, rng.randint(1, 6)).hex())
        for _ in range(3000 if tier == 'quick' else 300000):
            out.append('dg.dec ' + rb(rng, rng.randint(3, 9)).hex())
        for _ in range(60 if tier == 'quick' else 3000):
            x = rng.getrandbits(rng.choice([6, 14, 30, 60]))
            out.append('dg.dec ' + enc(x, 1 if x < 64 else 2 if x < 16384 else 4 if x < 2 ** 30 else 8).hex() + rb(rng, rng.choice([64, 300, 1200, 1500])).hex())
        # the same wire bytes as non-contiguous buffers, cut at every position
        for x in vals[:40 if tier == 'quick' else 2000]:
            for l in (1, 2, 4, 8):
                if x < 2 ** (8 * l - 2):
                    e = enc(x, l) + rb(rng, rng.randint(0, 4))
                    for i in range(1, len(e)):
                        out.append('dg.decc %s.%s' % (e[:i].hex(), e[i:].hex()))
                        if i + 1 < len(e):
                            out.append('dg.decc %s.%s.%s' % (e[:i].hex(), e[i:i + 1].hex(), e[i + 1:].hex()))
        return out

    def spec_ok(self, case, out, spec):
        if spec is None:
            return True
        if case.startswith('dg.enc'):
            if spec == 'panic':
                return out.split()[0] == 'panic'
            flat = spec.split()[1]
            flat = '' if flat == '-' else flat
            w = out.split()
            if not w or w[0] != 'ok':
                return False
            pos = 0
            for tok in w[1:]:
                if tok.startswith('HR-MISMATCH'):
                    return False
                if re.fullmatch(r'r\d+', tok):
                    if int(tok[1:]) != (len(flat) // 2 - pos):
                        return False
                    continue
                if ':' in tok:
                    r, tok = tok.split(':', 1)
                    # remaining() must be the true rest at every step
                    if int(r[1:]) != (len(flat) // 2 - pos):
                        return False
                if tok.startswith('skip'):
                    pos += int(tok[4:])
                elif tok == '-':
                    pass
                else:
                    if flat[2 * pos: 2 * pos + len(tok)] != tok:
                        return False
                    pos += len(tok) // 2
            return pos == len(flat) // 2
        return spec_match(out, spec)

    def nontrivial_key(self, case, impl_out):
        w = case.split()
        if w[0] == 'dg.enc':
            return case if w[2] != '-' else None
        return case if impl_out.startswith('ok') else None


PROP = P()
