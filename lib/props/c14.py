"""C14 - everything h3 writes is valid HTTP/3, however the transport takes it."""
import os
import subprocess

import core
from core import Property

M62 = 2 ** 62
GREASE_RANGE = 0x210842108421083


def vsize(x):
    return 1 if x < 64 else 2 if x < 16384 else 4 if x < 2 ** 30 else 8


def reserved(x):
    return x >= 33 and (x - 33) % 31 == 0 and x < M62


def rb(rng, n):
    return bytes(rng.getrandbits(8) for _ in range(n))


def vi(x):
    l = vsize(x)
    return ((({1: 0, 2: 1, 4: 2, 8: 3}[l]) << (8 * l - 2)) | x).to_bytes(l, 'big').hex()


def fr(t, payload_hex):
    return vi(t) + vi(len(payload_hex) // 2) + payload_hex


KNOWN_SETTINGS = [1, 6, 7, 8, 0x33, 0x2b603742, 0x2b603743]
REQ_KINDS = ['get', 'post', 'connect', 'big', 'nometh', 'badqpack', 'data1st', 'unk', 'none']


def rd_varint(b, i):
    """(value, next index) or None"""
    if i >= len(b):
        return None
    l = 1 << (b[i] >> 6)
    if i + l > len(b):
        return None
    v = int.from_bytes(b[i:i + l], 'big') & ((1 << (8 * l - 2)) - 1)
    return v, i + l


def split_frames(b, i=0):
    """list of (type, payload bytes) or None if the bytes do not split into complete frames"""
    out = []
    while i < len(b):
        t = rd_varint(b, i)
        if t is None:
            return None
        l = rd_varint(b, t[1])
        if l is None or l[1] + l[0] > len(b):
            return None
        out.append((t[0], b[l[1]:l[1] + l[0]]))
        i = l[1] + l[0]
    return out


KNOWN_FRAME = {0, 1, 3, 4, 5, 7, 13, 2, 6, 8, 9}
GREASE_BODY = bytes([6]) + b'grease'


def canon_settings(p):
    i, out = 0, []
    while i < len(p):
        a = rd_varint(p, i)
        if a is None:
            return None
        v = rd_varint(p, a[1])
        if v is None:
            return None
        out.append(('G' if reserved(a[0]) else str(a[0])) + '=' + str(v[0]))
        i = v[1]
    return ';'.join(out)


def canon_frames(fs, control):
    out = []
    for n, (t, p) in enumerate(fs):
        if control and n == 0 and t == 4:
            cs = canon_settings(p)
            out.append('S[%s]' % cs if cs is not None else 't4:' + p.hex())
        elif t == 1 and not control:
            out.append('H')            # QPACK bytes are C11's; the envelope is judged by the reference parser
        elif reserved(t) and t not in KNOWN_FRAME:
            out.append('G:' + p.hex())
        else:
            out.append('t%d:%s' % (t, p.hex()))
    return ','.join(out)


def is_grease_stream_prefix(b, complete):
    """b is (a prefix of) varint(reserved) varint(reserved) 06 'grease'"""
    t = rd_varint(b, 0)
    if t is None:
        return (not complete) and (len(b) == 0 or len(b) < (1 << (b[0] >> 6)))
    if not reserved(t[0]):
        return False
    f = rd_varint(b, t[1])
    if f is None:
        rest = b[t[1]:]
        return (not complete) and (len(rest) == 0 or len(rest) < (1 << (rest[0] >> 6)))
    if not reserved(f[0]):
        return False
    rest = b[f[1]:]
    if complete:
        return rest == GREASE_BODY
    return GREASE_BODY.startswith(rest) and rest != GREASE_BODY


def exact_budget(case):
    """programs in which the model follows the write budget exactly (only peer control frames and polls, no GOAWAY):
    there the partially accepted grease write is predicted by the model, not normalised"""
    w = case.split()
    if w[0] != 'wr' or w[3] == '-':
        return False
    ops = [] if w[4] == '-' else w[4].split(',')
    for o in ops:
        k, _, a = o.partition(':')
        if k == 'poll':
            continue
        if k == 'peer':
            b = bytes.fromhex(a or '000400')
            if b[:1] != b'\x00':
                return False
            fs = split_frames(b, 1)
        elif k == 'pframe':
            fs = split_frames(bytes.fromhex(a))
        else:
            return False
        if fs is None or any(t == 7 for t, _ in fs):
            return False
    return True


def parse_streams(out):
    """'ok [res=..] s<id>=<hex>[/F] ...' -> (res, {id: (bytes, fin)}) or None"""
    w = out.split()
    if not w or w[0] != 'ok':
        return None
    res, st = '', {}
    for t in w[1:]:
        if t.startswith('res='):
            res = t[4:]
            continue
        k, v = t.split('=', 1)
        h, _, fl = v.partition('/')
        st[int(k[1:])] = (bytes.fromhex('' if h == '-' else h), 'F' in fl)
    return res, st


class Oracle:
    """the extracted reference parser as a line-by-line subprocess"""

    def __init__(self):
        self.p = None
        self.memo = {}

    def ask(self, line):
        if line in self.memo:
            return self.memo[line]
        if self.p is None:
            exe = os.path.join(core.CACHE, 'ocaml', 'C14', 'h3model')
            self.p = subprocess.Popen([exe], stdin=subprocess.PIPE, stdout=subprocess.PIPE)
        self.p.stdin.write((line + '\n').encode())
        self.p.stdin.flush()
        r = self.p.stdout.readline().decode().strip()
        if len(self.memo) < 500000:
            self.memo[line] = r
        return r


class P(Property):
    id = 'C14'
    gen_modules = ['gen_varint', 'gen_datagram', 'gen_codes', 'gen_writers']
    properties_v = 'Properties/C14.v'
    model_targets = ['Model/Writers.vo', 'Spec/RFC9114Wire.vo']
    extract_v = 'Extract/ExtractC14.v'
    driver_ml = 'C14_driver.ml'
    harness_bin = 'c14'
    rule = ('si: Settings::insert sequences (capacity 8, repeated ids, ids/values >= 2^62) and the frame built from the accepted entries. '
            'wb: every public WriteBuf constructor (stream type, the four uni headers, the bidi header, every Frame variant that can be '
            'built for sending, (StreamType, Frame) pairs) x identifiers at every varint form boundary x payloads of 0..16384+ bytes in '
            '0..4 chunks x consumption scripts mixing chunk-bounded reads of 1..9 bytes and raw advance(k); settings lists up to the '
            '8-entry maximum incl. ones that overflow the 64-byte header array. wr: API programs (server: scripted requests then '
            'send_response/send_data incl. empty/send_trailers/finish/shutdown(n)/drop/stop in any order incl. after finish and on several '
            'streams; client: send_request/send_data/send_trailers/finish/shutdown) x configurations (grease on/off, all setting values at '
            'varint boundaries, request larger than max_field_section_size -> automatic 431) x write budgets (unlimited; or every write '
            'first Pending then 1..8 bytes per grant, thorough: every quantum 1..8 and initial budget 0..8 on every short program). '
            'the scripted peer also sends arbitrary further control-stream frames (GOAWAY incl. increasing ids, MAX_PUSH_ID, CANCEL_PUSH, reserved/unknown types, '
            'non-empty SETTINGS with every known id, second SETTINGS, frames illegal there) and requests of every kind (GET, POST with body and trailers, CONNECT, '
            'oversize, malformed, undecodable, DATA first, FIN / RESET / nothing before HEADERS, STOP_SENDING), each followed by accept/poll under budgets: '
            'the model writes nothing there but the grease stream and the final GOAWAY, so any extra byte is a correspondence violation. '
            'every stream log of the real code is judged by the extracted RFC 9114 reference parser. '
            'non-trivial = wb cases with a consumption script or payload, wr cases in which h3 wrote on a request stream or sent GOAWAY')
    partial_note = ('T3 covers the send-side API surface (send_request/send_response/send_data/send_trailers/finish/shutdown/drop/stop, '
                    'setup, grease stream, automatic 431); an application dropping a write future after a partial write leaves a partial '
                    'frame on the wire by construction of the quic trait - excluded by the premise "write futures are polled to completion"; '
                    'CLOSED WORLD: T3 is about the write sites of today (pinned by the census lemma C14_write_site_census) driven by the op alphabet of Model/Writers.v; '
                    'not in the alphabet: RequestStream::split(), SendRequest clones, h3-webtransport headers (WriteBuf level only) and direct calls of the public '
                    'conn.inner.send_control_stream_headers()/shutdown::<T>() - calling the former twice writes a second SETTINGS (harness op rehdr, corpus/C14/rehdr_finding.txt)')
    trusted_extra = [
        'SimQuic in-memory transport and deterministic executor (harness/src/simquic.rs); the scripted peer sends one fixed GET request per stream',
        'QPACK field-section bytes inside HEADERS frames are not compared (C11); grease identifiers are compared by form (31N+33, < 2^62)',
        'premise of T3: a write future is polled to completion (or the stream is reset); h3 itself stops polling the grease-stream write when '
        'the transport returns Pending - that stream may stay half-written (observation, allowed by RFC 9114 6.2.3 once the type is out)',
    ]

    def __init__(self):
        self.oracle = Oracle()

    # ------------------------------------------------------------ generators
    def _steps(self, rng, total, maxn=6, only_c=False):
        steps, left = [], total
        for _ in range(rng.randint(0, maxn)):
            if left <= 0:
                break
            r = rng.random()
            if only_c or r < 0.35:
                a = rng.randint(1, 9)
                steps.append('c%d' % a)
                left -= min(a, left)
            elif r < 0.55:      # a writev-style reader (chunks_vectored)
                a = rng.randint(1, 9)
                steps.append('v%d' % a)
                left -= min(a, left)
            elif r < 0.75:      # copy_to_bytes
                a = rng.randint(0, min(left, 12))
                steps.append('b%d' % a)
                left -= a
            else:
                a = rng.randint(0, min(left, 12))
                steps.append('a%d' % a)
                left -= a
        return ','.join(steps) or '-'

    def _chunks(self, rng, n):
        payload, chunks = rb(rng, n), []
        while payload:
            c = rng.randint(1, len(payload))
            chunks.append(payload[:c])
            payload = payload[c:]
            if len(chunks) == 3 and payload:
                chunks.append(payload)
                break
        return '.'.join(c.hex() for c in chunks) or '-'

    def _entries(self, rng, n):
        ids = set()
        out = []
        while len(out) < n:
            i = rng.choice([rng.randint(0, 63), rng.randint(64, 16383), rng.randint(16384, 2 ** 30 - 1), rng.randint(2 ** 30, M62 - 1),
                            33, 6, 8, 51, 727725890, 727725891, 1, 7, 31 * rng.randrange(GREASE_RANGE) + 33])
            if i in ids:
                continue
            ids.add(i)
            v = rng.choice([0, 1, 63, 64, 16383, 16384, 2 ** 30 - 1, 2 ** 30, M62 - 1, rng.getrandbits(62)])
            out.append((i, v))
        return out

    def _ent_str(self, es):
        return ';'.join('%d=%d' % e for e in es) or '-'

    def _ent_len(self, es):
        return sum(vsize(i) + vsize(v) for i, v in es)

    def wb_cases(self, tier, rng):
        out = []
        ids = [0, 1, 2, 3, 7, 33, 63, 64, 65, 84, 16383, 16384, 2 ** 30 - 1, 2 ** 30, M62 - 1, 31 * (GREASE_RANGE - 1) + 33]
        nr = 30 if tier == 'quick' else 2000
        ids += [rng.getrandbits(rng.choice([6, 14, 30, 62])) for _ in range(nr)]
        for x in ids:
            out.append('wb st:%d %s' % (x, self._steps(rng, vsize(x), 3)))
            for k in ('fc', 'fg', 'fm'):
                out.append('wb %s:%d %s' % (k, x, self._steps(rng, 2 + vsize(x))))
            out.append('wb fw:%d %s' % (x, self._steps(rng, 2 + vsize(x))))
            out.append('wb uw:%d %s' % (x, self._steps(rng, 2 + vsize(x))))
            out.append('wb bw:%d %s' % (x, self._steps(rng, 2 + vsize(x))))
            y = rng.choice(ids)
            out.append('wb p:%d:fg:%d %s' % (x, y, self._steps(rng, vsize(x) + 2 + vsize(y))))
            n = rng.choice([0, 1, 5, 63, 64, 100])
            out.append('wb p:%d:fd:%s %s' % (x, self._chunks(rng, n), self._steps(rng, vsize(x) + 1 + vsize(n) + n)))
        out.append('wb ue -')
        out.append('wb ud c1')
        # payload lengths around every length-field form boundary that is affordable, many chunkings
        lens = list(range(0, 70)) + [100, 255, 256, 300, 1000, 16383, 16384, 16385]
        lens += [rng.randint(0, 400) for _ in range(200 if tier == 'quick' else 5000)]
        if tier != 'quick':
            lens += [2 ** 16, 2 ** 16 + 1, 100000]
        for n in lens:
            out.append('wb fd:%s %s' % (self._chunks(rng, n), self._steps(rng, 1 + vsize(n) + n, 8)))
            out.append('wb fh:%s %s' % (rb(rng, n).hex() or '-', self._steps(rng, 1 + vsize(n) + n, 8)))
        # settings: what Config can produce, and arbitrary lists up to 8 entries (may overflow the 64-byte array)
        for _ in range(150 if tier == 'quick' else 5000):
            es = self._entries(rng, rng.randint(0, 8))
            n = self._ent_len(es)
            total = 1 + vsize(n) + n
            out.append('wb fs:%s %s' % (self._ent_str(es), self._steps(rng, total if total <= 64 else 0)))
            out.append('wb uc:%s %s' % (self._ent_str(es), self._steps(rng, 1 + total if 1 + total <= 64 else 0)))
        for _ in range(60 if tier == 'quick' else 600):
            out.append('wb fr %s' % self._steps(rng, 8, 4, True))
            out.append('wb p:%d:fr %s' % (rng.choice(ids), self._steps(rng, 9, 4, True)))
        # breaking the caller's side of the Buf contract: advance past the end, copy_to_bytes of more than remaining()
        for c in ('fg:4', 'fd:aabb', 'fh:00', 'st:0', 'fd:-', 'fr', 'p:33:fd:aa.bb'):
            out.append('wbx %s a100' % c)
            out.append('wbx %s c1,a100' % c)
            out.append('wbx %s b100' % c)
            out.append('wbx %s c1,b100' % c)
        # StreamType::from_value takes any u64: one that has no varint encoding panics in write_var (model: put_var), nothing is built
        for x in (M62, M62 + 1, 2 ** 63, 2 ** 64 - 1):
            for c in ('st:%d', 'p:%d:fd:aa', 'p:%d:fg:4', 'p:%d:fr', 'p:%d:fh:-'):
                out.append('wbx %s %s' % (c % x, rng.choice(['-', 'c1', 'a1,c1'])))
        out.append('wbx fd:aabb b4,b1')
        out.append('wbx fd:aabb.cc b3,b3')
        out.append('wbx ue b1,b1')
        # reads of an exhausted buffer: chunk() is empty, chunks_vectored() fills no slice, remaining() stays 0
        drain = 'c64,c99999,c99999,c99999,c99999'
        for c in ('st:0', 'st:%d' % (M62 - 1), 'ue', 'ud', 'uc:-', 'uc:6=1000;33=0', 'uw:4', 'bw:0', 'fc:7', 'fg:%d' % (M62 - 1), 'fm:0',
                  'fs:-', 'fs:1=2;6=3', 'fw:4', 'fd:-', 'fd:aa', 'fd:aa.bbcc.dd.ee', 'fh:-', 'fh:0000d1', 'p:0:fg:4', 'p:33:fd:-',
                  'p:84:fd:aa.bb', 'p:%d:fh:-' % (M62 - 1)):
            for tail in ('c1', 'v1', 'b0', 'a0', 'c3,v2,b0,a0,c1', 'v9,v9'):
                out.append('wb %s %s,%s' % (c, drain, tail))
        for c in ('fd:-', 'fh:-', 'p:33:fd:-', 'p:64:fh:-'):     # the payload is there but empty: header consumed, then look again
            hl = 2 + (vsize(int(c.split(':')[1])) if c[0] == 'p' else 0)
            for tail in ('c1', 'v1', 'b0', 'c1,v1,c1'):
                out.append('wb %s c%d,%s' % (c, hl, tail))
                out.append('wb %s a%d,%s' % (c, hl, tail))
        for _ in range(40 if tier == 'quick' else 1000):
            n = rng.choice([0, 0, 1, 3, 70])
            k = rng.choice(['fd:' + self._chunks(rng, n), 'fh:' + (rb(rng, n).hex() or '-'), 'fg:%d' % rng.choice(ids), 'st:%d' % rng.choice(ids),
                            'uc:' + self._ent_str(self._entries(rng, rng.randint(0, 3)))])
            tail = ','.join(rng.choice(['c%d' % rng.randint(1, 9), 'v%d' % rng.randint(1, 9), 'b0', 'a0']) for _ in range(rng.randint(1, 4)))
            out.append('wb %s %s,%s' % (k, drain, tail))
        # Frame::PushPromise: never built by h3 for sending (private fields, no push support), but anyone can get one out of the public
        # Frame::decode and hand it to WriteBuf::from.  Model and code agree on what then happens (the field section goes out twice
        # behind a length that counts it once, C14_push_promise_observation; the 64-byte header array overflows from ~58 bytes on):
        # model transcript only (wbx), the RFC encoding is not what either produces
        pp_lens = list(range(0, 8)) + [20, 55, 56, 57, 58, 59, 60, 61, 62, 63, 64, 65, 100, 300]
        pp_ids = [0, 1, 63, 64, 16383, 16384, 2 ** 30 - 1, 2 ** 30, M62 - 1]
        for n in pp_lens:
            for x in (pp_ids if n < 8 or tier != 'quick' else [0, 64, 2 ** 30, M62 - 1]):
                e = rb(rng, n).hex() or '-'
                total = 1 + vsize(vsize(x) + n) + vsize(x) + 2 * n
                out.append('wbx fp:%d:%s %s' % (x, e, self._steps(rng, total, 8)))
        for _ in range(60 if tier == 'quick' else 3000):
            n = rng.choice([0, 1, 2, 5, 17, 40, rng.randint(0, 70)])
            x = rng.choice(pp_ids + [rng.getrandbits(rng.choice([6, 14, 30, 62]))])
            e = rb(rng, n).hex() or '-'
            ty = rng.choice(ids)
            total = 1 + vsize(vsize(x) + n) + vsize(x) + 2 * n
            out.append('wbx p:%d:fp:%d:%s %s' % (ty, x, e, self._steps(rng, vsize(ty) + total, 8)))
            out.append('wbx fp:%d:%s %s,%s' % (x, e, drain, rng.choice(['c1', 'v1', 'b0', 'b1', 'a0', 'a1'])))
        return out

    CFG_M = [0, 1, 63, 64, 166, 167, 16383, 16384, 2 ** 30 - 1, 2 ** 30, M62 - 1]
    # u64 values the builder accepts but SETTINGS cannot carry: building the connection fails (H3_INTERNAL_ERROR) before a byte is written
    CFG_TOO_BIG = [M62, M62 + 1, 2 ** 63, 2 ** 64 - 1]

    def _cfg(self, rng, role):
        r = rng.random()
        if r < 0.08:
            return 'new'        # server::Connection::new / client::new
        if r < 0.14:
            return '-'          # builder defaults
        full = self._cfg_full(rng, role)
        if rng.random() < 0.3:  # only some setters are called
            toks = [t for t in full.split('.') if rng.random() < 0.5]
            return '.'.join(toks) or '-'
        return full

    def _cfg_full(self, rng, role):
        g = rng.choice([0, 1, 1])
        m = rng.choice(self.CFG_M + [M62 - 1] * 6 + [1000] * 4)
        if rng.random() < 0.01:
            m = rng.choice(self.CFG_TOO_BIG)
        s = 'g%d.m%d.x%d.d%d' % (g, m, rng.randint(0, 1), rng.randint(0, 1))
        if role == 's':
            s += '.w%d.n%d' % (rng.randint(0, 1), rng.choice([0, 1, 63, 64, 16384, 2 ** 30, M62 - 1] + (self.CFG_TOO_BIG if rng.random() < 0.01 else [])))
        return s

    def _data(self, rng):
        n = rng.choice([0, 0, 1, 2, 3, 5, 8, 17, 63, 64, 65, 200, rng.randint(0, 600)])
        return 'data:' + self._chunks(rng, n)

    # ---- what the scripted peer can put on its control stream
    def _peer_settings(self, rng):
        r = rng.random()
        if r < 0.3:
            return '0400'
        ids = [i for i in KNOWN_SETTINGS if rng.random() < 0.6] if r < 0.85 else list(KNOWN_SETTINGS)
        rng.shuffle(ids)
        pl = ''
        for i in ids:
            if i == 6:      # the peer's MAX_FIELD_SECTION_SIZE: around the sizes of what these programs send (36, 42, 167, 168)
                v = rng.choice([1000, 16383, 16384, 2 ** 30, M62 - 1, 1000, 0, 35, 36, 41, 42, 166, 167, 168])
            elif i in (8, 0x33, 0x2b603742):
                v = rng.choice([0, 1])
            else:
                v = rng.choice([0, 1, 63, 64, 4096, 2 ** 30, M62 - 1])
            pl += vi(i) + vi(v)
        if rng.random() < 0.5:
            pl += vi(31 * rng.randrange(GREASE_RANGE) + 33) + vi(rng.getrandbits(rng.choice([6, 30, 62])))
        if rng.random() < 0.2:
            pl += vi(rng.choice([0x4d44, 9, 10, 0xffd277])) + vi(rng.getrandbits(14))
        return fr(4, pl)

    def _peer_frame(self, rng, role):
        r = rng.random()
        if r < 0.30:      # GOAWAY (a client must be given a request id; both kinds are sent)
            x = rng.choice([0, 0, 4, 8, 12, 64, 400, 2 ** 30, M62 - 4] if role == 'c' and rng.random() < 0.8 else
                           [0, 1, 3, 4, 5, 63, 64, 16384, 2 ** 30, M62 - 1])
            return fr(7, vi(x))
        if r < 0.45:
            return fr(13, vi(rng.choice([0, 5, 63, 64, 2 ** 30, M62 - 1])))
        if r < 0.55:
            return fr(3, vi(rng.choice([0, 7, 64, M62 - 1])))
        if r < 0.80:      # reserved and unknown types, with and without payload
            t = rng.choice([0x21, 0x40, 0x0f, 0x10, 31 * rng.randrange(GREASE_RANGE) + 33, 0x2b603742, M62 - 1])
            return fr(t, rb(rng, rng.choice([0, 0, 1, 3, 17])).hex())
        if r < 0.88:      # a second SETTINGS
            return self._peer_settings(rng)
        # not allowed on a control stream / malformed
        return rng.choice(['0001aa', '0100', '050100', '0200', '0600', '0800', '0900', '07020001', '0700', '0d00', '0302ffff',
                           fr(4, vi(2) + vi(0)), fr(4, vi(6) + vi(1000) + vi(6) + vi(1000)), '040106',
                           # SETTINGS payloads that stop inside an identifier / inside the value of a later pair
                           '040140', '040180', '0403060140', '04040601c000', '0403063380'])

    def _peer_open(self, rng, role):
        r = rng.random()
        if r < 0.4:
            return 'peer'
        # first frame: SETTINGS; or one h3 must refuse there (H2 setting, GOAWAY / MAX_PUSH_ID / CANCEL_PUSH before SETTINGS, truncated SETTINGS)
        st = rng.choice([self._peer_settings(rng)] * 10 + [fr(4, vi(3) + vi(1)), '0700' + '00', fr(7, vi(0)), fr(13, vi(rng.choice([0, 5, M62 - 1]))),
                                                           fr(3, vi(rng.choice([0, 64]))), '040140', '0403060140', '0d00', '0302ffff'])
        more = ''.join(self._peer_frame(rng, role) for _ in range(rng.choice([0, 0, 0, 1, 2])))
        return 'peer:00' + st + more

    def _puni(self, rng, peer_open):
        t = rng.choice([2, 3, 2, 3, 1, 0x21, 0x54, 31 * rng.randrange(GREASE_RANGE) + 33, 0x40] + ([0] if peer_open else []))
        if rng.random() < 0.1:
            return 'puni:-'
        return 'puni:' + vi(t) + rb(rng, rng.choice([0, 0, 1, 5])).hex()

    def _acc(self, rng):
        if rng.random() < 0.6:
            return 'acc'
        k = rng.choice(REQ_KINDS)
        e = rng.choice(['F', 'F', 'F', 'N', 'R256', 'R0', 'S268', 'S0'])
        return 'acc:%s:%s' % (k, e)

    def _prog(self, rng, role, maxlen=12):
        ops = []
        want_peer = rng.random() < 0.65
        n = rng.randint(0, maxlen)
        peer_at = 0 if rng.random() < 0.6 else rng.randint(0, n)   # the peer's control stream may arrive at any time
        peer = False
        opened = 0
        for i in range(n + 1):
            if want_peer and i == peer_at:
                ops.append(self._peer_open(rng, role))
                peer = True
            if i == n:
                break
            r = rng.random()
            if rng.random() < 0.05:
                ops.append(self._puni(rng, peer))
                continue
            if rng.random() < 0.03:
                ops.append(rng.choice(['zfin:%d' % rng.randint(1, 4), 'cstop:%d' % rng.choice([0, 268]), 'xu', 'zfin:1']))
                continue
            if peer and rng.random() < 0.12:
                ops.append('pframe:' + ''.join(self._peer_frame(rng, role) for _ in range(rng.choice([1, 1, 2, 3]))))
                continue
            if rng.random() < 0.04:
                ops.append(rng.choice(['sstop:%d' % rng.choice([0, 268]), 'recv' if role == 's' else 'poll']))
                continue
            if role == 's':
                if r < 0.22:
                    ops.append(self._acc(rng))
                    opened += 1
                elif r < 0.37:
                    ops.append('resp:%d' % rng.choice([200, 204, 404, 500, 103]))
                elif r < 0.60:
                    ops.append(self._data(rng))
                elif r < 0.68:
                    ops.append('trailers')
                elif r < 0.82:
                    ops.append('finish')
                elif r < 0.89:
                    ops.append('shutdown:%d' % rng.choice([0, 0, 1, 2, 3, 100, 2 ** 32, 2 ** 60, 2 ** 64 - 1]))
                elif r < 0.92:
                    ops.append('drop')
                elif r < 0.94:
                    ops.append('stop:0')
                elif r < 0.97 and opened:
                    ops.append('sel:%d' % rng.randrange(opened))
                else:
                    ops.append('poll')
            else:
                if r < 0.22:
                    ops.append('req:' + rng.choice(['GET', 'POST', 'PUT', 'HEAD']))
                    opened += 1
                elif r < 0.50:
                    ops.append(self._data(rng))
                elif r < 0.60:
                    ops.append('trailers')
                elif r < 0.78:
                    ops.append('finish')
                elif r < 0.85:
                    ops.append('shutdown:%d' % rng.choice([0, 1, 5]))
                elif r < 0.89:
                    ops.append('drop')
                elif r < 0.91:
                    ops.append('stop:0')
                elif r < 0.96 and opened:
                    ops.append('sel:%d' % rng.randrange(opened))
                else:
                    ops.append('poll')
        return ','.join(ops) or '-'

    def _budget(self, rng):
        r = rng.random()
        if r < 0.3:
            return '-'
        b = rng.choice([0, 0, 0, 1, 2, 3, 5, 8, 23, 64])
        return '%d:%s' % (b, '.'.join(str(rng.randint(1, 8)) for _ in range(rng.randint(1, 4))))

    SHORT = {
        's': ['-', 'peer', 'acc,resp:200,finish', 'peer,acc,resp:200,data:6869,finish', 'acc,data:-,data:01,trailers,finish',
              'acc,finish,acc,finish', 'peer,acc,resp:200,data:0102.0304.05,trailers,finish,shutdown:2', 'shutdown:0', 'shutdown:5,shutdown:1,shutdown:3',
              'acc,shutdown:0,acc', 'acc,acc,sel:0,resp:200,sel:1,resp:404,finish,sel:0,finish', 'acc,finish,finish,data:aa',
              'peer,shutdown:1,acc,resp:200,finish,acc', 'acc,drop,shutdown:0,acc', 'acc,trailers,resp:200,data:00',
              'peer,pframe:0d0105,pframe:030100,pframe:2102aabb,acc,resp:200,finish', 'peer:00040007010c,acc,poll',
              'peer,acc,pframe:070100,resp:200,finish,poll,drop,poll', 'peer,pframe:070104,pframe:070108,acc,shutdown:0',
              'peer:0004030643e8,acc:post:F,recv,resp:200,data:aa,trailers,finish', 'peer,pframe:0400,acc,shutdown:1',
              'acc:big:F,resp:200,finish,acc:nometh:F,acc:none:R256,acc:connect:F,resp:200,finish',
              'acc:get:S268,resp:200,data:aa,finish,acc,resp:200,sstop:0,data:aa,finish', 'peer,pframe:0001aa,acc,shutdown:0',
              'peer,acc:badqpack:F,acc,shutdown:0', 'acc:data1st:F,poll,shutdown:2',
              'peer,pframe:0d0105,pframe:0d0106,pframe:030100,poll', 'peer:0004000d01052100,pframe:2100,pframe:0d0100',
              'acc,resp:200,peer:0004020623,trailers,resp:200,finish', 'puni:02,puni:03,puni:21aa,peer,puni:00,acc,shutdown:0',
              'acc,cstop:5,shutdown:0,acc,shutdown:0', 'acc,resp:200,zfin:3,finish,xu,data:aa,shutdown:0,acc',
              'peer:000d0105,acc,shutdown:0', 'peer:00030100,pframe:0400,acc,resp:200,finish', 'peer:00040140,acc,shutdown:0',
              'peer:000403060140,poll,acc', 'peer,pframe:040140,acc,shutdown:0'],
        'c': ['-', 'peer', 'req:GET,finish', 'peer,req:POST,data:6869,finish', 'req:GET,data:-,data:01,trailers,finish',
              'req:GET,finish,req:GET,finish', 'peer,req:PUT,data:0102.0304.05,trailers,finish,shutdown:0', 'shutdown:0,req:GET',
              'req:GET,req:GET,sel:0,data:aa,sel:1,data:bb,finish,sel:0,finish', 'req:GET,finish,finish,data:aa', 'shutdown:0,shutdown:0',
              'peer,pframe:070104,req:GET,poll', 'peer,req:GET,pframe:070103,req:GET,data:aa,finish,shutdown:0',
              'peer,req:GET,pframe:0d0105,req:GET,finish', 'peer,pframe:2100,pframe:070100,pframe:070100,req:GET',
              'peer:0004030643e8,req:POST,sstop:3,data:aa,finish', 'peer,pframe:0400,req:GET,finish,shutdown:0',
              'peer,pframe:2100,pframe:2100,poll', 'peer:0004030640a6,req:GET,req:POST,finish', 'req:GET,peer:0004020623,trailers,finish',
              'cstop:0,req:GET,shutdown:0,req:GET,finish', 'req:GET,xu,data:aa,finish,req:GET,shutdown:0', 'puni:03,puni:03,req:GET',
              'peer:000d0105,req:GET,finish', 'peer:00030100,poll,req:GET,shutdown:0', 'peer:00040140,req:GET,finish',
              'peer,pframe:0403060140,req:GET,poll', 'poll,req:GET,poll,finish,poll'],
    }

    def wr_cases(self, tier, rng):
        out = []
        # exhaustive write quanta on short programs
        for role in ('s', 'c'):
            cfgs = (['g1.m4611686018427387903.x0.d0' + ('.w0.n0' if role == 's' else ''), 'g0.m100.x1.d1' + ('.w1.n64' if role == 's' else ''), 'new'])
            for prog in self.SHORT[role]:
                for cfg in cfgs:
                    out.append('wr %s %s - %s' % (role, cfg, prog))
                    if cfg == 'new' and tier == 'quick':
                        out.append('wr %s %s 0:3 %s' % (role, cfg, prog))
                        continue
                    qs = (1, 2, 3, 5, 8) if tier == 'quick' else range(1, 9)
                    bs = (0,) if tier == 'quick' else range(0, 9)
                    for q in qs:
                        for b in bs:
                            out.append('wr %s %s %d:%d %s' % (role, cfg, b, q, prog))
        # configurations without a SETTINGS encoding, alone and together, every role / constructor path / budget kind
        for role in ('s', 'c'):
            for big in self.CFG_TOO_BIG:
                if role == 's':
                    cfgs = ['m%d' % big, 'g1.m%d.x0.d0.w1.n0' % big, 'g0.m%d.x1.d1.w1.n64' % big,
                            'n%d' % big, 'g1.m1000.x0.d0.w1.n%d' % big, 'g0.m%d.x0.d0.w0.n%d' % (big, big), 'w0.n%d' % big]
                else:
                    cfgs = ['m%d' % big, 'g1.m%d.x0.d0' % big, 'g0.m%d.x1.d1' % big]
                for cfg in cfgs:
                    for prog in ('-', self.SHORT[role][3], 'peer,shutdown:0,poll'):
                        for budget in ('-', '0:1'):
                            out.append('wr %s %s %s %s' % (role, cfg, budget, prog))
        n = 2500 if tier == 'quick' else 100000
        for _ in range(n):
            role = rng.choice(['s', 's', 'c'])
            prog = self._prog(rng, role)
            cfg = self._cfg(rng, role)
            for _ in range(rng.choice([1, 2, 3])):
                out.append('wr %s %s %s %s' % (role, cfg, self._budget(rng), prog))
        return out

    def si_cases(self, tier, rng):
        """Settings::insert: the 8-entry capacity, repeated identifiers, identifiers / values without a varint encoding"""
        out = ['si -', 'si 6=1', 'si 6=1;6=1', 'si 6=1;6=2;1=0', 'si 0=0;2=0;3=0;4=0;5=0',
               'si %d=0' % M62, 'si 6=%d' % M62, 'si %d=%d' % (2 ** 64 - 1, 2 ** 64 - 1), 'si %d=%d;33=0' % (M62 - 1, M62 - 1),
               'si ' + ';'.join('%d=%d' % (i, i) for i in range(1, 9)), 'si ' + ';'.join('%d=%d' % (i, i) for i in range(1, 10)),
               'si ' + ';'.join('%d=0' % i for i in range(1, 12)), 'si 1=1;1=2;' + ';'.join('%d=0' % i for i in range(2, 10)),
               # 8 accepted entries of 16 bytes: the frame no longer fits the 64-byte header array
               'si ' + ';'.join('%d=%d' % (2 ** 30 + i, 2 ** 30) for i in range(8)),
               'si ' + ';'.join('%d=%d' % (2 ** 30 + i, 2 ** 30) for i in range(3)) + ';1=1;2=2;1073741824=5;%d=1;7=7;8=8;9=9' % M62]
        for _ in range(300 if tier == 'quick' else 20000):
            es = []
            for _ in range(rng.choice([1, 2, 3, 5, 7, 8, 9, 10, 12])):
                r = rng.random()
                if es and r < 0.2:
                    i = rng.choice(es)[0]       # a repeated identifier
                elif r < 0.3:
                    i = rng.choice(self.CFG_TOO_BIG + [M62 - 1])
                else:
                    i = rng.choice(KNOWN_SETTINGS + [0, 2, 33, rng.randint(0, 63), rng.getrandbits(rng.choice([6, 14, 30, 62])), 31 * rng.randrange(GREASE_RANGE) + 33])
                v = rng.choice([0, 1, 63, 64, 16384, M62 - 1, rng.getrandbits(rng.choice([6, 14, 30]))] + (self.CFG_TOO_BIG if rng.random() < 0.15 else []))
                es.append((i, v))
            out.append('si ' + self._ent_str(es))
        return out

    def cases(self, tier, rng):
        return self.wb_cases(tier, rng) + self.si_cases(tier, rng) + self.wr_cases(tier, rng)

    # ------------------------------------------------------------ comparison
    def canon(self, case, out):
        w = case.split()
        if w[0] == 'si':
            return 'ok %s panic' % out.split()[1] if (out.startswith('ok ') and 'panic' in out.split()[2:]) else out
        if w[0] in ('wb', 'wbx'):
            ctor = w[1]
            if ctor == 'fr' or ctor.endswith(':fr'):
                # a random identifier: only its shape is comparable
                toks = out.split()
                if not toks or toks[0] != 'ok':
                    return out.split()[0] if toks else out
                return 'ok grease'
            if out.startswith('panic'):
                return 'panic'
            return out
        if w[0] == 'wr':
            if out.startswith('build-err'):
                # the connection was not built: the model says nothing is on the wire; any byte (or FIN) h3 produced stays visible
                return ' '.join(['build-err'] + sorted(t for t in out.split()[1:] if not t.endswith('=-')))
            ps = parse_streams(out)
            if ps is None:
                return out.split()[0] if out.split() else out
            res, st = ps
            role, budget = w[1], w[3]
            grease_id = (3 if role == 's' else 2) + 12
            toks = []
            for sid in sorted(st):
                b, fin = st[sid]
                f = '/F' if fin else ''
                if sid & 2:
                    if sid == grease_id:
                        if exact_budget(case) and is_grease_stream_prefix(b, fin):
                            toks.append('s%d=GSX%d%s' % (sid, len(b), f))     # length and FIN as the model predicts them
                        elif fin and is_grease_stream_prefix(b, True):
                            toks.append('s%d=GS' % sid)
                        elif not fin and budget != '-' and is_grease_stream_prefix(b, False):
                            toks.append('s%d=GS' % sid)
                        else:
                            toks.append('s%d=raw:%s%s' % (sid, b.hex(), f))
                        continue
                    t = rd_varint(b, 0)
                    if t is None:
                        toks.append('s%d=raw:%s%s' % (sid, b.hex(), f))
                    elif t[0] == 0:
                        fs = split_frames(b, t[1])
                        toks.append('s%d=C:%s%s' % (sid, canon_frames(fs, True), f) if fs is not None else 's%d=raw:%s%s' % (sid, b.hex(), f))
                    else:
                        toks.append('s%d=U%d:%s%s' % (sid, t[0], b[t[1]:].hex(), f))
                else:
                    fs = split_frames(b)
                    toks.append('s%d=R:%s%s' % (sid, canon_frames(fs, False), f) if fs is not None else 's%d=raw:%s%s' % (sid, b.hex(), f))
            return 'ok ' + ' '.join(toks)
        return out

    def _judge(self, case, out):
        if out.startswith('build-err'):
            # whatever was written before the failure is judged like any other log; a stream h3 opened without ever writing or
            # finishing it is not on the wire at all
            out = ' '.join(['ok'] + [t for t in out.split()[1:] if not t.endswith('=-')])
        ps = parse_streams(out)
        if ps is None:
            return False
        res, st = ps
        if res in ('hang',):
            return False
        role = case.split()[1]
        grease_id = (3 if role == 's' else 2) + 12
        toks = []
        for sid in sorted(st):
            b, fin = st[sid]
            fl = ('F' if fin else '') + ('P' if sid == grease_id and not fin else '')
            toks.append('s%d=%s%s' % (sid, b.hex() or '-', '/' + fl if fl else ''))
        return self.oracle.ask('judge %s %s' % (role, ' '.join(toks))) == 'ok'

    def spec_ok(self, case, out, spec):
        w = case.split()
        if w[0] in ('wbx', 'si') or spec is None:
            return True
        if w[0] == 'wb':
            if spec == 'panic':
                return out.split()[:1] == ['panic']
            toks = out.split()
            if not toks or toks[0] != 'ok':
                return False
            # rebuild the byte string handed out and check remaining() at every step
            got, rems, skips = [], [], 0
            pos = 0
            flat = None if spec == 'grease' else bytes.fromhex('' if spec.split()[1] == '-' else spec.split()[1])
            for tok in toks[1:]:
                r, _, body = tok.partition(':')
                rems.append((int(r[1:]), pos))
                if body.startswith('skip'):
                    k = int(body[4:])
                    got.append(None if flat is None else flat[pos:pos + k])
                    if flat is None:
                        return False  # raw skips are not generated for grease buffers
                    pos += k
                elif body == '-':
                    pass
                else:
                    bs = bytes.fromhex(body)
                    got.append(bs)
                    pos += len(bs)
            if flat is None:
                flat = b''.join(g for g in got if g is not None)
                i = 0
                if w[1].startswith('p:'):
                    want = int(w[1].split(':')[1])
                    t = rd_varint(flat, 0)
                    if t is None or t[0] != want or t[1] != vsize(want):
                        return False
                    i = t[1]
                t = rd_varint(flat, i)
                if t is None or not reserved(t[0]) or t[1] - i != vsize(t[0]) or flat[t[1]:] != GREASE_BODY:
                    return False
            else:
                if b''.join(got) != flat[:pos] or pos != len(flat):
                    return False
            return all(r == len(flat) - p for r, p in rems)
        if w[0] == 'wr':
            return self._judge(case, out)
        return True

    def nontrivial_key(self, case, impl_out):
        w = case.split()
        if w[0] in ('wb', 'wbx'):
            return case if (w[2] != '-' or w[1][:2] in ('fd', 'fh', 'p:')) else None
        if w[0] == 'si':
            return case if w[1] != '-' else None
        ps = parse_streams(impl_out)
        if ps is None:
            return None
        res, st = ps
        ctl = 3 if w[1] == 's' else 2
        wrote = any(len(b) > 0 for sid, (b, f) in st.items() if not sid & 2)
        goaway = ctl in st and split_frames(st[ctl][0], 1) and any(t == 7 for t, _ in split_frames(st[ctl][0], 1))
        return case if (wrote or goaway) else None

    def shrink_candidates(self, case):
        w = case.split()
        out = []
        if w[0] == 'wr':
            ops = [] if w[4] == '-' else w[4].split(',')
            if w[3] != '-':
                out.append(' '.join(w[:3] + ['-', w[4]]))
                out.append(' '.join(w[:3] + ['0:1', w[4]]))
            for i in range(len(ops)):
                out.append(' '.join(w[:4] + [','.join(ops[:i] + ops[i + 1:]) or '-']))
            for i, o in enumerate(ops):
                if o.startswith('data:') and len(o) > 9:
                    out.append(' '.join(w[:4] + [','.join(ops[:i] + ['data:00'] + ops[i + 1:])]))
        elif w[0] == 'wb':
            st = [] if w[2] == '-' else w[2].split(',')
            for i in range(len(st)):
                out.append(' '.join(w[:2] + [','.join(st[:i] + st[i + 1:]) or '-']))
        return [c for c in out if c != case]


PROP = P()
