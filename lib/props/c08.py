import itertools
import os
import subprocess

import core
from core import Property

U64 = 2 ** 64
TOP = 2 ** 62 - 8          # largest request id the theorems cover (index 2^60 - 2); 2^62 - 4 is the saturation boundary
ORDERS = [(0, 4, 8, 12, 16, 20, 24, 28), (4, 0, 8, 12, 16, 20, 24, 28), (8, 4, 0, 12, 16, 20, 24, 28), (0, 8, 4, 12, 20, 16, 24, 28)]


def concretise(tokens, order):
    """abstract tokens A / C / V -> A<id> / C<id> / V<id>: the k-th A uses order[k], the k-th C completes (V: resolves) the k-th arrival"""
    out, na, nc, nv = [], 0, 0, 0
    for t in tokens:
        if t == 'V':
            out.append('V%d' % order[nv])
            nv += 1
            continue
        if t == 'A':
            out.append('A%d' % order[na])
            na += 1
        elif t == 'C':
            out.append('C%d' % order[nc])
            nc += 1
        else:
            out.append(t)
    return ','.join(out)


class Oracle:
    """one long-lived copy of the extracted model: judges a GIVEN trace with the Coq line monitor"""

    def __init__(self, pid):
        self.exe = os.path.join(core.CACHE, 'ocaml', pid, 'h3model')
        self.p = None
        self.memo = {}

    def ask(self, line):
        if line in self.memo:
            return self.memo[line]
        if self.p is None:
            self.p = subprocess.Popen([self.exe], stdin=subprocess.PIPE, stdout=subprocess.PIPE, text=True, bufsize=1)
        self.p.stdin.write(line + '\n')
        self.p.stdin.flush()
        r = self.p.stdout.readline().strip()
        if len(self.memo) < 200000:
            self.memo[line] = r
        return r


class P(Property):
    id = 'C08'
    gen_modules = ['gen_codes', 'gen_varint', 'gen_goaway']
    properties_v = 'Properties/C08.v'
    model_targets = ['Model/Goaway.vo', 'Spec/GoawaySpec.vo']
    extra_targets = ['Model/GoawayWrite.vo']
    extract_v = 'Extract/ExtractC08.v'
    driver_ml = 'C08_driver.ml'
    harness_bin = 'c08'
    rule = ('goaway: the REAL server::Connection over SimQuic, every history of length <= 6 (quick) / <= 8 (thorough) over '
            '{Arrive next id, shutdown(0), shutdown(1), poll accept once, complete the oldest request, peer GOAWAY} x 4 arrival orders '
            '(in and out of stream-ID order), plus seeded random histories of length 8..40 with n in {0,1,2,3,2^62,usize::MAX}, '
            'ids up to 2^62-8, repeated shutdowns; plus every history of length <= 5 (thorough 6) over {Arrive, shutdown(0/1), poll, write budget := 0, grant 2 / 9 bytes, peer GOAWAY} with the budget closed early (pending GOAWAY writes, the same future resumed), plus shutdown(n) after accept() reported an error; plus V<id> = the application resolves a request it was shown (must obtain it; STOP_SENDING/RESET on a shown stream is reported); plus long histories with 13..200 requests held at once; the environment letter p runs the same history through poll_accept_request_stream + create_resolver; observed: GOAWAY frames parsed from the control stream bytes, streams returned by '
            'accept(), STOP_SENDING/RESET codes, accept answers; every implementation trace is judged by the extracted Coq line monitor. '
            'cgoaway: the REAL client driver + SendRequest, every sequence of length <= 5 over '
            '{GOAWAY(id) for id in 0,4,8 and non-request ids 2,3, drive, poll send_request (new call or the one parked for stream credit), '
            'stream credit := 0, grant 1 stream} (thorough: also length 6,7 over a 6-letter alphabet) plus seeded random ones with ids up to 2^62-1; '
            'errors are observed as returned code + variant + the code passed to the transport close(). Every 6th (thorough: 3rd) case is '
            're-run in a seeded environment variant: default config (grease on), 3 uni-stream credits, other peer uni streams first, '
            'chunked control-stream preamble, late control stream. '
            'non-trivial = distinct cases in which accept() took at least one stream from the transport (goaway) or the driver '
            'processed at least one GOAWAY (cgoaway)')

    def __init__(self):
        self.oracle = Oracle(self.id)

    def cases(self, tier, rng):
        out = []
        alpha = ['A', 'S0', 'S1', 'P', 'C', 'G0']
        maxlen = 6
        for L in range(1, maxlen + 1):
            for toks in itertools.product(alpha, repeat=L):
                if 'P' not in toks or 'A' not in toks:
                    continue
                na = toks.count('A')
                for oi, order in enumerate(ORDERS):
                    if oi > 0 and na < 2:
                        continue
                    if oi == 3 and na < 3:
                        continue
                    out.append('goaway ' + concretise(toks, order))
        if tier != 'quick':
            alpha2 = ['A', 'S0', 'S1', 'P', 'C']
            for L in (7, 8):
                for toks in itertools.product(alpha2, repeat=L):
                    if 'P' not in toks or 'A' not in toks or toks[-1] != 'P':
                        continue
                    na = toks.count('A')
                    out.append('goaway ' + concretise(toks, ORDERS[0]))
                    if na >= 2 and L == 7:
                        out.append('goaway ' + concretise(toks, ORDERS[1]))
        # the application resolves what it was shown (served = the request is obtained, the stream is not refused)
        for L in range(2, 6):
            for toks in itertools.product(['A', 'S0', 'S1', 'P', 'V', 'C'], repeat=L):
                if 'V' not in toks or 'P' not in toks or 'A' not in toks:
                    continue
                out.append('goaway ' + concretise(toks, ORDERS[0]))
        # long histories: k requests held at once, shutdown(5), one arrival inside the grace interval, one beyond
        for k in ((13, 50, 100, 101, 130, 200) if tier == 'quick' else range(13, 201, 3)):
            toks = ['A%d' % (4 * i) for i in range(k)] + ['P'] * k + ['S5', 'A%d' % (4 * k), 'A%d' % (4 * k + 20), 'P', 'P', 'V%d' % (4 * k)]
            out.append('goaway ' + ','.join(toks))
            out.append('goaway.g ' + ','.join(toks))
        # control-stream write budget: the GOAWAY write of shutdown() / of accept()'s None arm pends and the SAME future is
        # polled again after credit arrives (b: budget := 0, W<k>: k more bytes; a GOAWAY frame is 3..10 bytes)
        walpha = ['A', 'S0', 'S1', 'P', 'b', 'W2', 'W9', 'G0']
        for L in range(2, (5 if tier == 'quick' else 6) + 1):
            for toks in itertools.product(walpha, repeat=L):
                if 'b' not in toks or not ('P' in toks or 'S0' in toks or 'S1' in toks):
                    continue
                if toks.index('b') > 2:
                    continue
                out.append('goaway ' + concretise(toks, ORDERS[0]))
        # shutdown(n) after accept() has reported a connection error: refused with that error, nothing written
        for tail in itertools.chain.from_iterable(itertools.product(['S0', 'S1', 'A', 'P', 'S2'], repeat=k) for k in (1, 2, 3)):
            for head in (['G4', 'G8', 'P'], ['A', 'P', 'S1', 'G0', 'G4', 'P'], ['S1', 'G1', 'G2', 'P']):
                out.append('goaway ' + concretise(list(head) + list(tail), ORDERS[0]))
        # seeded random longer histories
        ns = [0, 0, 1, 1, 2, 3, 2 ** 62, U64 - 1, 2 ** 60 - 2, 7]
        for _ in range(4000 if tier == 'quick' else 150000):
            L = rng.randint(8, 40)
            base = rng.choice([0, 0, 0, 4 * rng.randint(0, 2 ** 20), TOP - 4 * rng.randint(0, 12)])
            ids = [base + 4 * k for k in range(12) if base + 4 * k <= TOP]
            # local shuffles: out of stream-id order
            for _ in range(rng.randint(0, 4)):
                i = rng.randrange(len(ids))
                j = min(len(ids) - 1, i + rng.randint(1, 3))
                ids[i], ids[j] = ids[j], ids[i]
            toks, na, arrived = [], 0, []
            for _ in range(L):
                r = rng.random()
                if r < 0.3 and na < len(ids):
                    toks.append('A%d' % ids[na])
                    arrived.append(ids[na])
                    na += 1
                elif r < 0.62:
                    toks.append('P')
                elif r < 0.8:
                    toks.append('S%d' % rng.choice(ns))
                elif r < 0.93 and arrived:
                    toks.append('C%d' % rng.choice(arrived))
                elif r < 0.95 and arrived:
                    toks.append('V%d' % rng.choice(arrived))
                elif r < 0.97:
                    toks.append('G%d' % rng.choice([0, 0, 1, 5]))
                elif r < 0.985:
                    toks.append(rng.choice(['b', 'W1', 'W3', 'W5', 'W20']))
                else:
                    toks.append('P')
            out.append('goaway ' + ','.join(toks))
        # client
        calpha = ['g0', 'g4', 'g8', 'g3', 'g2', 'D', 'R', 'z', 'h1']
        for L in range(1, 6):
            for toks in itertools.product(calpha, repeat=L):
                if 'D' not in toks and 'R' not in toks:
                    continue
                out.append('cgoaway ' + ','.join(toks))
        if tier != 'quick':
            for L in (6, 7):
                for toks in itertools.product(['g4', 'g8', 'D', 'R', 'z', 'h1'], repeat=L):
                    if 'D' not in toks:
                        continue
                    out.append('cgoaway ' + ','.join(toks))
        for _ in range(3000 if tier == 'quick' else 100000):
            L = rng.randint(3, 14)
            toks = []
            cur = rng.choice([4 * rng.getrandbits(rng.choice([4, 20, 60])), 2 ** 62 - 4])
            for _ in range(L):
                r = rng.random()
                if r < 0.45:
                    k = rng.random()
                    if k < 0.6:
                        cur = max(0, cur - 4 * rng.choice([0, 0, 1, 2, 5]))
                        toks.append('g%d' % cur)
                    elif k < 0.8:
                        toks.append('g%d' % min(2 ** 62 - 4, cur + 4 * rng.choice([1, 2, 100])))
                    else:
                        toks.append('g%d' % (min(2 ** 62 - 4, cur) + rng.choice([1, 2, 3])))
                elif r < 0.70:
                    toks.append('D')
                elif r < 0.88:
                    toks.append('R')
                elif r < 0.94:
                    toks.append('z')
                else:
                    toks.append('h%d' % rng.choice([1, 1, 2]))
            out.append('cgoaway ' + ','.join(toks))
        # environment variants of the same histories (the model does not depend on them): grease on (the default
        # configuration), only 3 uni streams granted (the grease stream cannot open), other peer uni streams first,
        # control stream type byte / SETTINGS chunked, control stream late
        envs = ['.g', '.g3', '.3', '.u', '.q', '.t', '.l', '.gu3', '.gqt3', '.gul3', '.qtl', '.p', '.p', '.gp', '.p3l']
        step = 5 if tier == 'quick' else 3
        extra = []
        for i in range(0, len(out), step):
            fam, rest = out[i].split(' ', 1)
            if '.' in fam:
                continue
            extra.append(fam + rng.choice(envs) + ' ' + rest)
        return out + extra

    def spec_ok(self, case, out, spec):
        if spec is None:
            return True
        if not out.startswith('ok '):
            return False
        w = case.split()
        if w[0].split('.')[0] == 'goaway':
            sv = spec.split(' ', 1)
            if len(sv) == 2 and sv[1] == out[3:]:
                return sv[0] == 'line-ok'
            r = self.oracle.ask('gchk %s %s' % (w[1], out[3:]))
            return r.startswith('line-ok')
        return out == spec

    def nontrivial_key(self, case, impl_out):
        if case.startswith('goaway'):
            return case if ('+' in impl_out or ' -' in impl_out or ',-' in impl_out) else None
        return case if ('idle' in impl_out or 'err:' in impl_out) and 'g' in case else None

    def shrink_candidates(self, case):
        w = case.split()
        ops = w[1].split(',')
        if len(ops) <= 1:
            return []
        return ['%s %s' % (w[0], ','.join(ops[:i] + ops[i + 1:])) for i in range(len(ops))]


PROP = P()
