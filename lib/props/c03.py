import itertools

from core import Property
from props.c16 import enc

REQ = bytes.fromhex('0000d1d7500161c1')      # :method GET, :scheme https, :authority a, :path /
RESP = bytes.fromhex('0000d9')               # :status 200
TRL = bytes.fromhex('000023782d740176')      # x-t: v


def frame(t, payload):
    return enc(t, 1 if t < 64 else 2) + enc(len(payload), 1 if len(payload) < 64 else 2) + payload


def letters(role, first_headers):
    """the 11-letter alphabet of the property; the first HEADERS of a sequence carries the message's header block,
    later ones a trailer block (their contents are C11/C12's subject)"""
    H = frame(1, (REQ if role == 's' else RESP) if first_headers else TRL)
    return {
        'H': H, 'D0': frame(0, b''), 'Dn': frame(0, b'abc'), 'U0': frame(0x21, b''), 'Un': frame(0x21 + 0x1f * 7, b'\x01\x02\x00'),
        'CP': frame(3, b'\x00'), 'SE': frame(4, b''), 'GA': frame(7, b'\x00'), 'MP': frame(0x0d, b'\x01'),
        'PP': frame(5, b'\x00' + TRL), 'H2': frame(2, b'\x05'),
    }


NAMES = ['H', 'D0', 'Dn', 'U0', 'Un', 'CP', 'SE', 'GA', 'MP', 'PP', 'H2']


def seq_bytes(role, seq):
    out, seen_h = [], False
    for n in seq:
        l = letters(role, not seen_h)
        out.append(l[n])
        if n == 'H':
            seen_h = True
    return out


def case(role, chunks_and_polls):
    return 'rq %s %s' % (role, ','.join(chunks_and_polls))


def batch(role, frames, ending, extra=4):
    flat = b''.join(frames)
    acts = (['c' + flat.hex()] if flat else []) + ([ending] if ending else [])
    return case(role, acts + ['p'] * (len(frames) + extra))


def per_frame(role, frames, ending):
    acts = []
    for f in frames:
        acts += ['c' + f.hex(), 'p', 'p']
    if ending:
        acts.append(ending)
    return case(role, acts + ['p'] * 4)


def random_split(rng, role, frames, ending, late_end=False):
    flat = b''.join(frames)
    acts, rest = [], flat
    npoll = 0
    while rest:
        c = min(len(rest), rng.choice([1, 1, 2, 3, 5, 8, len(rest)]))
        acts.append('c' + rest[:c].hex())
        rest = rest[c:]
        for _ in range(rng.choice([0, 0, 1, 2])):
            acts.append('p')
            npoll += 1
    if late_end:
        acts += ['p'] * (len(frames) + 3)
    if ending:
        acts.append(ending)
    return case(role, acts + ['p'] * (len(frames) + 6))


def parse_obs(out):
    ev, final, pend = [], None, False
    extra = {}
    for w in out.split()[1:]:
        if '=' in w and w.split('=')[0] in ('reset', 'close', 'stop'):
            k, v = w.split('=')
            extra[k] = v
            continue
        if final is not None:
            final = 'result-after-final:' + w
            break
        if w == 'pend':
            pend = True
            continue
        pend = False
        if w.startswith('head:'):
            ev.append(w)
        elif w.startswith('d:'):
            h = w[2:]
            ev += ['b' + h[i:i + 2] for i in range(0, len(h), 2)]
        elif w == 'bodyend':
            ev.append(w)
        elif w.startswith('trailers:'):
            ev.append(w)
            final = 'done'
        elif w.startswith('err:c:'):
            final = 'connerr:' + w[6:]
        elif w.startswith('err:s:'):
            final = 'streamerr:' + w[6:]
        elif w.startswith('err:rt:'):
            final = 'aborted:term:' + w[7:]
        elif w.startswith('err:cr:'):
            final = 'aborted:' + w[7:]
        else:
            final = 'unparsed:' + w
    return ev, final, pend, extra


def parse_spec(spec):
    w = spec.split()
    i = w.index('T')
    ev = []
    for x in w[1:i]:
        if x.startswith('b:'):
            ev.append('b' + x[2:])
        else:
            ev.append(x)
    return ev, w[i + 1]


class P(Property):
    id = 'C03'
    gen_modules = ['gen_varint', 'gen_codes', 'gen_frames', 'gen_reqstream']
    properties_v = 'Properties/C03.v'
    model_targets = ['Model/RequestStream.vo', 'Spec/RequestSeq.vo']
    extract_v = 'Extract/ExtractC03.v'
    driver_ml = 'C03_driver.ml'
    harness_bin = 'c03'
    rule = ('rq: every sequence of up to 4 frames (thorough: also a seeded quarter of those of 5 and a twentieth of those of 6) over the alphabet {HEADERS, DATA(0), DATA(3), '
            'unknown(0), unknown(3), CANCEL_PUSH, SETTINGS, GOAWAY, MAX_PUSH_ID, PUSH_PROMISE, HTTP/2-reserved} x {FIN, RESET, '
            'open} x {one chunk then polls, one chunk per frame with polls in between, seeded random byte-level chunking with '
            'interleaved polls, the ending arriving only after everything was read} x {server, client}, driving the real '
            'server::Connection (accept, resolve_request, recv_data, recv_trailers) and client::Connection (send_request, '
            'recv_response, recv_data, recv_trailers) over SimQuic, one API poll per `p`. non-trivial = distinct cases in which '
            'the implementation delivered a header section or raised an error')

    def canon(self, case, out):
        if out.startswith('panic'):
            return 'panic'
        out = out.replace('head:' + REQ.hex(), 'head:REQ').replace('head:' + RESP.hex(), 'head:RESP')
        out = out.replace('trailers:' + TRL.hex(), 'trailers:T')
        return out

    def cases(self, tier, rng):
        out = []
        n = 4 if tier == 'quick' else 6
        for role in ('s', 'c'):
            for k in range(0, n + 1):
                for seq in itertools.product(NAMES, repeat=k):
                    if tier != 'quick' and k == 6 and rng.random() > 0.05:
                        continue       # length 6: a seeded twentieth of the 1.77 million sequences
                    if tier != 'quick' and k == 5 and rng.random() > 0.25:
                        continue       # length 5: a seeded quarter of the 161 thousand
                    fr = seq_bytes(role, seq)
                    for e in ('F', 'R268', ''):
                        out.append(batch(role, fr, e))
                        if k >= 2 and (tier != 'quick' or k <= 3 or e != 'R268'):
                            out.append(per_frame(role, fr, e))
                    e = rng.choice(['F', 'F', 'R268', ''])
                    if k >= 1:
                        out.append(random_split(rng, role, fr, e, late_end=rng.random() < 0.4))
        return out

    def spec_ok(self, case, out, spec):
        if spec is None:
            return True
        if not out.startswith('ok'):
            return False
        out = self.canon(case, out)
        spec = self.canon(case, spec)
        w = case.split()
        acts = w[2].split(',') if len(w) > 2 else []
        ev, final, pend, extra = parse_obs(out)
        sev, sfinal = parse_spec(spec)
        ending = ''
        for a in acts:
            if a[0] in 'FRX':
                ending = a
                break
        last_call = max([i for i, a in enumerate(acts) if a == 'p'], default=-1)
        complete = last_call >= 0 and not any(a[0] in 'cFRX' for a in acts[last_call + 1:])
        if ev != sev[:len(ev)]:
            return False
        if extra.get('stop', '-') != '-':
            return False
        if final is None:
            if extra.get('close', '-') != '-' or extra.get('reset', '-') != '-':
                return False
            if pend and complete:
                return sfinal == 'waiting' and ev == sev
            return True
        if final == 'done':
            return sfinal == 'done' and ev == sev and extra.get('close') == '-' and extra.get('reset') == '-'
        if final.startswith('connerr:'):
            code = final[8:]
            if extra.get('close') != code:
                return False          # the connection must be closed with that very code
            if sfinal.startswith('connerr:') and code in sfinal[8:].split('/'):
                if ev == sev:
                    return True
                # a DATA payload cut by FIN: bytes received but not handed out before the error
                return code == '262' and all(t.startswith('b') for t in sev[len(ev):])
            return False
        if final.startswith('streamerr:'):
            return (sfinal == 'incomplete' and final == 'streamerr:269' and ev == sev and extra.get('reset') == '269'
                    and extra.get('close') == '-')
        if final.startswith('aborted:'):
            if not ending or ending[0] not in 'RX':
                return False
            want = 'aborted:term:' + ending[1:] if ending[0] == 'R' else 'aborted:app:' + ending[1:]
            return final == want and extra.get('close') == '-'
        return False

    def nontrivial_key(self, case, impl_out):
        return case if ('head:' in impl_out or 'err:' in impl_out) else None

    def shrink_candidates(self, case):
        w = case.split()
        if len(w) < 3:
            return []
        acts = w[2].split(',')
        out = []
        for i in range(len(acts)):
            out.append('rq %s %s' % (w[1], ','.join(acts[:i] + acts[i + 1:])))
        return [c for c in out if not c.endswith(' ')]


PROP = P()
