import itertools
import re

from core import Property
from props.c16 import enc

REQ = bytes.fromhex('0000d1d7500161c1')      # :method GET, :scheme https, :authority a, :path /
RESP = bytes.fromhex('0000d9')               # :status 200
TRL = bytes.fromhex('000023782d740176')      # x-t: v


def frame(t, payload):
    return enc(t, 1 if t < 64 else 2) + enc(len(payload), 1 if len(payload) < 64 else 2) + payload


def letters(role, first_headers):
    """the 11-letter alphabet of the property; the first HEADERS of a sequence carries the message's header block,
    later ones a trailer block (their contents are C11/C12's subject)"""
    H = frame(1, (REQ if role == 's' else RESP) if first_headers else TRL)
    return {
        'H': H, 'D0': frame(0, b''), 'Dn': frame(0, b'abc'), 'U0': frame(0x21, b''), 'Un': frame(0x21 + 0x1f * 7, b'\x01\x02\x00'),
        'CP': frame(3, b'\x00'), 'SE': frame(4, b''), 'GA': frame(7, b'\x00'), 'MP': frame(0x0d, b'\x01'),
        'PP': frame(5, b'\x00' + TRL), 'H2': frame(2, b'\x05'),
    }


NAMES = ['H', 'D0', 'Dn', 'U0', 'Un', 'CP', 'SE', 'GA', 'MP', 'PP', 'H2']


def seq_bytes(role, seq):
    out, seen_h = [], False
    for n in seq:
        l = letters(role, not seen_h)
        out.append(l[n])
        if n == 'H':
            seen_h = True
    return out


def case(role, chunks_and_polls):
    return 'rq %s %s' % (role, ','.join(chunks_and_polls))


def batch(role, frames, ending, extra=4):
    flat = b''.join(frames)
    acts = (['c' + flat.hex()] if flat else []) + ([ending] if ending else [])
    return case(role, acts + ['p'] * (len(frames) + extra))


def per_frame(role, frames, ending):
    acts = []
    for f in frames:
        acts += ['c' + f.hex(), 'p', 'p']
    if ending:
        acts.append(ending)
    return case(role, acts + ['p'] * 4)


def random_split(rng, role, frames, ending, late_end=False):
    flat = b''.join(frames)
    acts, rest = [], flat
    npoll = 0
    while rest:
        c = min(len(rest), rng.choice([1, 1, 2, 3, 5, 8, len(rest)]))
        acts.append('c' + rest[:c].hex())
        rest = rest[c:]
        for _ in range(rng.choice([0, 0, 1, 2])):
            acts.append('p')
            npoll += 1
    if late_end:
        acts += ['p'] * (len(frames) + 3)
    if ending:
        acts.append(ending)
    return case(role, acts + ['p'] * (len(frames) + 6))


# ---- beyond the 11 letters: other unknown types (non-grease, registered extensions, 2/4/8-byte type varints), the other
# HTTP/2-reserved types, payloads whose length needs a 2- or 4-byte varint, and long runs of short frames
def big_headers(role, first, n):
    # a literal field x-t: vvvv... (n bytes) after the regular block
    val = b'v' * n
    if n < 127:
        lit = bytes([n])
    else:
        k, lit = n - 127, bytes([0x7f])
        while k >= 128:
            lit += bytes([0x80 | (k & 0x7f)])
            k >>= 7
        lit += bytes([k])
    base = (REQ if role == 's' else RESP) if first else bytes.fromhex('0000')
    return base + bytes.fromhex('23782d74') + lit + val


GREASE8 = 0x21 + 0x1f * (2 ** 40 + 12345)


def ext_letters(role, first_headers):
    def fr(t, payload):
        tl = 1 if t < 64 else 2 if t < 2 ** 14 else 4 if t < 2 ** 30 else 8
        L = len(payload)
        ll = 1 if L < 64 else 2 if L < 2 ** 14 else 4
        return enc(t, tl) + enc(L, ll) + payload
    pat = bytes((7, 1, 4, 0, 0, 3, 1, 2)) * 2048
    return {
        'U0e': fr(0x0e, b''), 'U0c': fr(0x0c, b'abc'), 'U40': fr(0x40, b'\x00'), 'U89': fr(0x89, b'xy'),
        'Uf0700': fr(0xf0700, b'\x00\x01'), 'Ug8': fr(GREASE8, b'grease'), 'U63': fr(0x21, pat[:63]), 'U64': fr(0x21, pat[:64]),
        'U16383': fr(0x2f, pat[:16383]), 'U16384': fr(0x0e, pat[:16384]), 'Ulen4': enc(0x21, 1) + enc(3, 4) + b'abc',
        'Ulen8': enc(0x0e, 2) + enc(2, 8) + b'ab', 'D64': fr(0, pat[:64]), 'D16384': fr(0, pat[:16384]), 'Dlen4': enc(0, 1) + enc(3, 4) + b'xyz',
        'SEv': fr(4, b'\x01\x05\x06\x40\x40'), 'SEbad': fr(4, b'\x02\x00'), 'SEcut': fr(4, b'\x01'), 'GAbad': fr(7, b'\x04\x00'),
        'CPshort': fr(3, b''), 'PPshort': fr(5, b''),
        'SE6': fr(4, b'\x06\x40\x40'), 'SE6b': fr(4, b'\x06\x00\x01\x40\x40\x07\x00\x08\x01\x33\x01'),
        'CPbig': fr(3, enc(2 ** 40 + 5, 8)), 'GAbig': fr(7, enc(2 ** 31, 8)), 'MPbig': fr(0x0d, enc(16384, 4)),
        'PPbig': fr(5, enc(2 ** 20, 4) + TRL), 'GA4007': enc(7, 2) + b'\x01\x04', 'D4000': enc(0, 2) + b'\x03xyz', 'D8000': enc(0, 4) + enc(2, 2) + b'pq',
        'H206': fr(6, b''), 'H208': fr(8, b'\x01\x02\x03\x04'), 'H209': fr(9, b'\x00'),
        'Hbig': fr(1, big_headers(role, first_headers, 200)), 'Hbig16k': fr(1, big_headers(role, first_headers, 16384)),
    }


# HEADERS frames with a 0- / 2-byte block: only where the block is never decoded (after the trailers), or - the 2-byte
# block is an empty field section - as trailers
SHORT_H = {'H0': frame(1, b''), 'H2': frame(1, b'\x00\x00')}
ERR_ARM_SEQS = [('H', 'H', 'H0'), ('H', 'H', 'H2'), ('H', 'Dn', 'H', 'H2'), ('H', 'H2'), ('H', 'Dn', 'H2'), ('H', 'H2', 'H0'), ('H', 'H2', 'Dn'),
                ('H', 'H', 'D0'), ('H', 'H', 'Dn'), ('H', 'H', 'CPbig'), ('H', 'H', 'GAbig'), ('H', 'H', 'SE'), ('H', 'H', 'PPbig'), ('H', 'H', 'MPbig'),
                ('H', 'H', 'D64'), ('H', 'H', 'GA4007'), ('H', 'H', 'D4000'), ('H', 'H', 'Hbig'), ('H', 'H', 'H'), ('H', 'H', 'U0', 'H2'),
                ('D0',), ('D4000',), ('D64',), ('CPbig',), ('GAbig',), ('MPbig',), ('PPbig',), ('GA4007',), ('SE6',), ('SE6b',)]


def ext_seq_bytes(role, seq):
    out, seen_h = [], False
    for n in seq:
        base = letters(role, not seen_h)
        l = SHORT_H[n] if n in SHORT_H else base[n] if n in base else ext_letters(role, not seen_h)[n]
        out.append(l)
        if n in ('H', 'Hbig', 'Hbig16k'):
            seen_h = True
    return out


def parse_obs(out):
    ev, final, pend = [], None, False
    extra = {}
    for w in out.split()[1:]:
        if '=' in w and w.split('=')[0] in ('reset', 'close', 'stop'):
            k, v = w.split('=')
            extra[k] = v
            continue
        if final is not None:
            final = 'result-after-final:' + w
            break
        if w == 'pend':
            pend = True
            continue
        pend = False
        if w.startswith('head:'):
            ev.append(w)
        elif w.startswith('d:'):
            h = w[2:]
            ev += ['b' + h[i:i + 2] for i in range(0, len(h), 2)]
        elif w == 'bodyend':
            ev.append(w)
        elif w.startswith('trailers:'):
            ev.append(w)
            final = 'done'
        elif w.startswith('err:c:'):
            final = 'connerr:' + w[6:]
        elif w.startswith('err:s:'):
            final = 'streamerr:' + w[6:]
        elif w.startswith('err:rt:'):
            final = 'aborted:term:' + w[7:]
        elif w.startswith('err:cr:'):
            final = 'aborted:' + w[7:]
        elif w == 'err:undef':
            final = 'aborted:unknown'
        else:
            final = 'unparsed:' + w
    return ev, final, pend, extra


def parse_spec(spec):
    w = spec.split()
    i = w.index('T')
    ev = []
    for x in w[1:i]:
        if x.startswith('b:'):
            ev.append('b' + x[2:])
        else:
            ev.append(x)
    return ev, w[i + 1]


class P(Property):
    id = 'C03'
    gen_modules = ['gen_varint', 'gen_codes', 'gen_frames', 'gen_reqstream']
    properties_v = 'Properties/C03.v'
    model_targets = ['Model/RequestStream.vo', 'Spec/RequestSeq.vo']
    extract_v = 'Extract/ExtractC03.v'
    driver_ml = 'C03_driver.ml'
    harness_bin = 'c03'
    rule = ('rq: every sequence of up to 4 frames (thorough: also a seeded quarter of those of 5 and a twentieth of those of 6) over the alphabet {HEADERS, DATA(0), DATA(3), '
            'unknown(0), unknown(3), CANCEL_PUSH, SETTINGS, GOAWAY, MAX_PUSH_ID, PUSH_PROMISE, HTTP/2-reserved} x {FIN, RESET, '
            'open} x {one chunk then polls, one chunk per frame with polls in between, seeded random byte-level chunking with '
            'interleaved polls, the ending arriving only after everything was read} x {server, client}, driving the real '
            'server::Connection (accept, resolve_request, recv_data, recv_trailers) and client::Connection (send_request, '
            'recv_response, recv_data, recv_trailers) over SimQuic, one API poll per `p`; for sequences of up to 3 frames also with '
            'the application calling split() after the head or after the first piece of body and reading the receive half; '
            'plus 35 further letters (unknown types 0x0e/0x0c/0x40/0x89/0xf0700/8-byte grease, HTTP/2 types 6/8/9, unknown, DATA '
            'and HEADERS payloads of 63/64/16383/16384 bytes, non-minimal 4/8-byte length varints, SETTINGS with valid / reserved / '
            'cut contents, mis-sized and large-id CANCEL_PUSH/GOAWAY/MAX_PUSH_ID/PUSH_PROMISE, known types in 2/4-byte type '
            'varints) at 7 positions; 0- and 2-byte HEADERS blocks and odd frames behind the trailers (error arms); every proper '
            'prefix of every sequence of <= 2 frames (and 3 starting with HEADERS) cut by FIN known before / after the reads; the '
            'stream failing with Unknown / the connection with Undefined / Internal / Timeout / peer close; and runs of '
            '17..100 (thorough 300) unknown / zero-length DATA / DATA / mixed frames before, inside and after the message. non-trivial = distinct cases in which '
            'the implementation delivered a header section or raised an error')

    def canon(self, case, out):
        if out.startswith('panic'):
            return 'panic'
        # header blocks are opaque to the model (hex); the implementation shows what it decoded from them
        out = re.sub(r'head:%s[0-9a-f]*' % REQ.hex(), 'head:REQ', out)
        out = re.sub(r'head:%s[0-9a-f]*' % RESP.hex(), 'head:RESP', out)
        out = re.sub(r'trailers:000023782d74[0-9a-f]*', 'trailers:T', out)
        out = out.replace('trailers:0000 ', 'trailers:EMPTY ').replace('trailers:?{} ', 'trailers:EMPTY ')
        acts = case.split()[2].split(',') if len(case.split()) > 2 else []
        if any(a[0] in 'XIT' for a in acts):
            # when the transport itself fails, whether and how the connection driver closes is its own reaction (C05)
            out = re.sub(r'close=\S+', 'close=*', out)
        return out

    def cases(self, tier, rng):
        out = []
        # how else a stream can fail: StreamErrorIncoming::Unknown (K), connection closed by the peer (X<code>), failing in
        # a way h3 does not know (XU), internally (I), by timeout (T): all sequences up to length 2, plus the seeded families
        for role in ('s', 'c'):
            for k in range(0, 3):
                for seq in itertools.product(NAMES, repeat=k):
                    fr = seq_bytes(role, seq)
                    for e in ('K', 'XU', 'I', 'T', 'X256'):
                        out.append(batch(role, fr, e))
                        if k >= 1:
                            out.append(per_frame(role, fr, e))
                            out.append(random_split(rng, role, fr, e, late_end=rng.random() < 0.5))
        n = 4 if tier == 'quick' else 6
        for role in ('s', 'c'):
            for k in range(0, n + 1):
                for seq in itertools.product(NAMES, repeat=k):
                    if tier != 'quick' and k == 6 and rng.random() > 0.05:
                        continue       # length 6: a seeded twentieth of the 1.77 million sequences
                    if tier != 'quick' and k == 5 and rng.random() > 0.25:
                        continue       # length 5: a seeded quarter of the 161 thousand
                    fr = seq_bytes(role, seq)
                    for e in ('F', 'R268', ''):
                        out.append(batch(role, fr, e))
                        if k >= 2 and (tier != 'quick' or k <= 3 or e != 'R268'):
                            out.append(per_frame(role, fr, e))
                    e = rng.choice(['F', 'F', 'F', 'R268', 'R0', 'R256', 'R%d' % 2 ** 40, 'K', 'XU', 'I', 'T', ''])
                    if k >= 1:
                        out.append(random_split(rng, role, fr, e, late_end=rng.random() < 0.4))
                    # the application split()s the stream after the head / after the first piece of body
                    if 1 <= k <= 3 and seq[0] == 'H':
                        for flag in ('+split', '+splitm'):
                            out.append(per_frame(role + flag, fr, 'F'))
                            out.append(batch(role + flag, fr, rng.choice(['F', '', 'R268'])))
                            out.append(random_split(rng, role + flag, fr, 'F', late_end=rng.random() < 0.5))
        xs = sorted(ext_letters('s', True))
        for role in ('s', 'c'):
            for x in xs:
                big = '16' in x
                for seq in ((x,), ('H', x), ('H', x, 'Dn'), ('H', 'Dn', x), ('H', 'Dn', 'H', x), (x, 'H', 'Dn'), ('H', x, x, 'Dn', 'H')):
                    fr = ext_seq_bytes(role, seq)
                    for e in ('F', ''):
                        out.append(batch(role, fr, e))
                        if not big or e == 'F':
                            out.append(per_frame(role, fr, e))
                    out.append(random_split(rng, role, fr, 'F', late_end=rng.random() < 0.3) if not big
                               else batch(role + '+split', fr, 'F'))
                    if not big:
                        out.append(per_frame(role + rng.choice(['+split', '+splitm']), fr, 'F'))
            # long runs of short frames
            for k in ((17, 20, 33, 100) if tier == 'quick' else (17, 20, 33, 64, 100, 300)):
                for seq in (('H',) + ('U0',) * k + ('Dn',), ('H',) + ('D0',) * k + ('Dn',), ('H',) + ('Dn',) * k,
                            ('U0',) * k + ('H', 'Dn'), ('H', 'Dn', 'H') + ('Un',) * k, ('H',) + ('Ug8', 'D0', 'U0e', 'Dn') * (k // 4),
                            ('H',) + ('Un',) * k + ('H',)):
                    fr = ext_seq_bytes(role, seq)
                    for e in ('F', ''):
                        out.append(batch(role, fr, e, extra=k + 4))
                    out.append(per_frame(role, fr, 'F'))
                    out.append(random_split(rng, role, fr, 'F'))
                    out.append(batch(role + '+split', fr, 'F', extra=k + 4))
            # the error arms (they format the offending frame): short and odd HEADERS / DATA / ids behind the trailers etc.
            for seq in ERR_ARM_SEQS:
                fr = ext_seq_bytes(role, seq)
                for e in ('F', ''):
                    out.append(batch(role, fr, e))
                    out.append(per_frame(role, fr, e))
                out.append(random_split(rng, role, fr, 'F'))
                out.append(batch(role + '+split', fr, 'F'))
            # `cut`: every proper prefix of the bytes of every sequence of up to 2 frames (and of 3 starting with HEADERS),
            # then FIN - known before anything is read, or only after everything was read
            for k in (1, 2, 3):
                for seq in itertools.product(NAMES, repeat=k):
                    if k == 3 and (seq[0] != 'H' or (tier == 'quick' and seq[1] not in ('H', 'Dn', 'D0', 'Un'))):
                        continue
                    flat = b''.join(seq_bytes(role, seq))
                    for cut in range(1, len(flat)):
                        pre = flat[:cut].hex()
                        out.append('rq %s c%s,F,%s' % (role, pre, ','.join(['p'] * (k + 4))))
                        if cut % 2 == 1 or k < 3:
                            out.append('rq %s c%s,%s,F,p,p,p' % (role, pre, ','.join(['p'] * (k + 3))))
            # a WebTransport stream header is outside the property (the outcome is `outofscope`): model = implementation only
            for pre in ((), ('H',), ('H', 'Dn')):
                fr = seq_bytes(role, pre) + [bytes.fromhex('404100'), b'raw']
                out.append(batch(role, fr, 'F'))
                out.append(per_frame(role, fr, ''))
        return out

    def impl_env(self):
        # the SimQuic executor polls with one waker per poll and reports a task that answers Pending without having left
        # that waker anywhere (nor woken it): under a wake-driven executor the call is never polled again
        return {'H3V_LOSTWAKE': '1'}

    def spec_ok(self, case, out, spec):
        if spec is None:
            return True
        if out.endswith(' LOST-WAKEUP'):
            return False
        if not out.startswith('ok'):
            return False
        out = self.canon(case, out)
        spec = self.canon(case, spec)
        w = case.split()
        acts = w[2].split(',') if len(w) > 2 else []
        ev, final, pend, extra = parse_obs(out)
        sev, sfinal = parse_spec(spec)
        ending = ''
        for a in acts:
            if a[0] in 'FRXIKT':
                ending = a
                break
        last_call = max([i for i, a in enumerate(acts) if a == 'p'], default=-1)
        complete = last_call >= 0 and not any(a[0] in 'cFRXIKT' for a in acts[last_call + 1:])
        if ev != sev[:len(ev)]:
            return False
        if sfinal == 'outofscope':
            return True           # WebTransport stream header: no claim beyond the events shown before it
        if extra.get('stop', '-') != '-':
            return False
        if final is None:
            if extra.get('close', '-') not in ('-', '*') or extra.get('reset', '-') != '-':
                return False
            if pend and complete:
                return sfinal == 'waiting' and ev == sev
            return True
        if final == 'done':
            return sfinal == 'done' and ev == sev and extra.get('close') in ('-', '*') and extra.get('reset') == '-'
        if final.startswith('connerr:'):
            code = final[8:]
            if extra.get('close') not in (code, '*'):
                return False          # the connection must be closed with that very code
            if sfinal.startswith('connerr:') and code in sfinal[8:].split('/'):
                if ev == sev:
                    return True
                # a DATA payload cut by FIN: bytes received but not handed out before the error
                return code == '262' and all(t.startswith('b') for t in sev[len(ev):])
            return False
        if final.startswith('streamerr:'):
            return (sfinal == 'incomplete' and final == 'streamerr:269' and ev == sev and extra.get('reset') == '269'
                    and extra.get('close') in ('-', '*'))
        if final.startswith('aborted:'):
            # the stream / the transport failed: exactly that failure is reported, after any prefix of the events; h3 raises
            # no connection error of its own and resets nothing
            if not ending or ending[0] not in 'RXIKT':
                return False
            from props.c02 import aborted_name
            return final == aborted_name(ending) and extra.get('close') in ('-', '*') and extra.get('reset') == '-'
        return False

    def nontrivial_key(self, case, impl_out):
        return case if ('head:' in impl_out or 'err:' in impl_out) else None

    def shrink_candidates(self, case):
        w = case.split()
        if len(w) < 3:
            return []
        acts = w[2].split(',')
        out = []
        for i in range(len(acts)):
            out.append('rq %s %s' % (w[1], ','.join(acts[:i] + acts[i + 1:])))
        return [c for c in out if not c.endswith(' ')]


PROP = P()
