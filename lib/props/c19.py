from core import Property, spec_match
from props.c16 import enc

SIDS_SMALL = list(range(0, 68, 4))
SIDS_BIG = [4 * 2 ** 4, 4 * 2 ** 12 - 4, 4 * 2 ** 12, 4 * 2 ** 14, 4 * 2 ** 28 - 4, 4 * 2 ** 28, 4 * 2 ** 30, 2 ** 62 - 4]


def shortest(x):
    return 1 if x < 2 ** 6 else 2 if x < 2 ** 14 else 4 if x < 2 ** 30 else 8


def vi(x, l=None):
    return enc(x, l or shortest(x))


def compositions(n):
    """all ways to cut a string of n bytes into non-empty consecutive pieces (as lists of lengths)"""
    if n == 0:
        yield []
        return
    for mask in range(2 ** (n - 1)):
        out, cur = [], 1
        for i in range(n - 1):
            if mask >> i & 1:
                out.append(cur)
                cur = 1
            else:
                cur += 1
        out.append(cur)
        yield out


def cut(data, lens):
    out, p = [], 0
    for l in lens:
        out.append(data[p:p + l])
        p += l
    return out


def hist(chunks, ending, polls):
    """polls: set of chunk indices after which the application is polled (-1: before the first chunk)"""
    its = []
    if -1 in polls:
        its.append('p')
    for i, c in enumerate(chunks):
        its.append('c' + c.hex())
        if i in polls:
            its.append('p')
    if ending:
        its.append(ending)
    return ','.join(its) or '-'


class P(Property):
    id = 'C19'
    gen_modules = ['gen_varint', 'gen_codes', 'gen_webtransport', 'gen_buflist']
    properties_v = 'Properties/C19.v'
    model_targets = ['Model/WebTransport.vo', 'Spec/WTSpec.vo']
    extract_v = 'Extract/ExtractC19.v'
    driver_ml = 'C19_driver.ml'
    harness_bin = 'c19'
    rule = ('real h3 server + h3-webtransport session over SimQuic, scripted peer. wt.sess: CONNECT on stream S for S in 0,4,..,64 and '
            'multi-byte ids (4*2^12-4.. 2^62-4), first or after 1..3 plain requests, extension on/off. wt.open: open_bi/open_uni + payload, '
            'transport accepting 1,2,3 or all bytes per grant. wt.recv: peer-opened bidi (0x41) and uni (0x54) streams, header in every '
            'varint form, bytes header++payload(0..6) cut at every offset / one chunk / byte by byte (thorough: every composition of '
            'header<=9 + payload<=4), polls between arrivals at none/all/seeded positions, FIN / RESET / still open, poll_data and AsyncRead '
            'with 1..8 byte buffers, tokio AsyncRead with 1..8 byte ReadBufs, bidi streams also through split() (receive half), every mode crossed with payload-in-the-header-chunk / FIN / RESET / open / polls, headers naming another session id, two uni streams pending at once (wt.recv2), 2..4 uni and bidi streams pending together with various transport ids (wt.multi), deliveries handed over as non-contiguous Bufs of 1/2/3/7/500-byte segments (g<n>), payloads up to 1500 (thorough 70000) bytes, several open_bi/open_uni on one session with and without open credit (wt.open2), uni stream before or after the CONNECT, extension on/off, truncated headers. '
            'non-trivial = distinct cases in which a session was established and (wt.recv) at least the first header byte arrived')

    trusted_extra = [
        'bytes::Buf default methods (get_u8, copy_to_slice) over BufList and its Cursor read the flat remaining-bytes view: the model '
        'decodes varints on concat(chunks) and then calls the modelled BufList::advance; tied by the chunkings that split every varint at every byte',
        'transport contract assumed by the theorems (h_ok) and upheld by SimQuic: chunks are non-empty, FIN / RESET is the last event of a stream',
        'h3-webtransport session plumbing (accept -> session_id -> open_bi/open_uni/accept_bi/accept_uni, the wt_uni_streams queue) is tied by '
        'the correspondence run and by the generated facts only; the model has one session and one WebTransport stream at a time',
    ]
    partial_note = ('not modelled: several concurrent sessions / streams (accept_uni pops the most recently resolved stream of ANY session), '
                    'connection loss while a header is incomplete, the receive half of server-opened bidirectional streams (no header, empty buffer)')

    def recv_cases(self, tier, rng):
        out = []
        sids = SIDS_SMALL + SIDS_BIG if tier != 'quick' else [0, 4, 8, 60, 64, 4 * 2 ** 12, 4 * 2 ** 14, 4 * 2 ** 30, 2 ** 62 - 4]
        endings = ['F', 'R7', '']
        base_modes = ['d', 'r1', 'r2', 'r3', 'r8', 't1', 't2', 't3', 't8']
        for kind, sig in (('uni', 0x54), ('bi', 0x41)):
            modes = base_modes + (['sd', 'sr2', 'st8', 'st1'] if kind == 'bi' else [])
            for s in sids:
                forms = [(2, shortest(s))]
                if tier != 'quick' or s in (8, 4 * 2 ** 14):
                    forms += [(tl, sl) for tl in (2, 4, 8) for sl in (1, 2, 4, 8) if s < 2 ** (8 * sl - 2) and (tl, sl) != (2, shortest(s))]
                for (tl, sl) in forms:
                    hdr = vi(sig, tl) + vi(s, sl)
                    for plen in range(0, 7):
                        payload = bytes(rng.getrandbits(8) for _ in range(plen))
                        data = hdr + payload
                        n = len(data)
                        chunkings = [[n], [1] * n] + [[k, n - k] for k in range(1, n)]
                        for lens in chunkings:
                            chunks = cut(data, lens)
                            for pol in ('none', 'all', 'rand'):
                                if pol == 'none':
                                    polls = set()
                                elif pol == 'all':
                                    polls = set(range(-1, len(chunks)))
                                else:
                                    polls = {i for i in range(-1, len(chunks)) if rng.random() < 0.5}
                                ending = rng.choice(endings)
                                mode = rng.choice(modes)
                                en = 1 if rng.random() < 0.8 else 0
                                early = rng.choice([1, 2]) if (kind == 'uni' and rng.random() < 0.35) else 0
                                npre = rng.choice([0, 0, 1, 2]) if s >= 8 else (1 if s == 4 and rng.random() < 0.5 else 0)
                                out.append('wt.recv %s %d %d %d %d %s %s' % (kind, s, npre, en, early, mode, hist(chunks, ending, polls)))
        # truncated headers (stream ends or stays silent inside the header)
        for kind, sig in (('uni', 0x54), ('bi', 0x41)):
            for s in (8, 4 * 2 ** 14):
                hdr = vi(sig) + vi(s)
                for t in range(0, len(hdr)):
                    for ending in endings:
                        for en in (0, 1):
                            chunks = [hdr[:t]] if t else []
                            out.append('wt.recv %s %d 0 %d 0 d %s' % (kind, s, en, hist(chunks, ending, {0})))
                            if t >= 2:
                                out.append('wt.recv %s %d 0 %d 0 d %s' % (kind, s, en, hist(cut(hdr[:t], [1] * t), ending, set(range(t)))))
        # unknown uni stream types are stopped, never surfaced
        for ty in (0x21, 0x40, 0x53, 0x55):
            out.append('wt.recv uni 8 0 1 0 d %s' % hist([vi(ty) + b'\x08\xaa'], 'F', {0}))
        if tier != 'quick':
            # every composition of header (<= 9 bytes) + payload (<= 4 bytes)
            for kind, sig in (('uni', 0x54), ('bi', 0x41)):
                for (s, tl, sl) in ((8, 2, 1), (8, 2, 2), (4 * 2 ** 14, 2, 4), (8, 4, 4), (8, 8, 1)):
                    hdr = vi(sig, tl) + vi(s, sl)
                    for plen in (0, 1, 2, 4):
                        if len(hdr) + plen > 11:
                            continue
                        payload = bytes(rng.getrandbits(8) for _ in range(plen))
                        data = hdr + payload
                        for lens in compositions(len(data)):
                            chunks = cut(data, lens)
                            polls = {i for i in range(-1, len(chunks)) if rng.random() < 0.6}
                            out.append('wt.recv %s %d 0 1 0 %s %s' % (kind, s, rng.choice(base_modes + (['sd', 'sr2', 'st8'] if kind == 'bi' else [])), hist(chunks, rng.choice(endings), polls)))
        out += self.cross_cases(tier, rng)
        out += self.keep_cases(rng, tier)
        out += self.other_session_cases(rng)
        out += self.two_stream_cases(tier, rng)
        out += self.seg_and_size_cases(tier, rng)
        out += self.multi_cases(tier, rng)
        return out

    def cross_cases(self, tier, rng):
        """deterministic crossing: every read mode x payload sharing a chunk with the header or not x FIN / RESET / open x polls"""
        out = []
        base_modes = ['d', 'r1', 'r2', 'r3', 'r8', 't1', 't2', 't3', 't8']
        for kind, sig in (('uni', 0x54), ('bi', 0x41)):
            modes = base_modes + (['s' + m for m in base_modes] if kind == 'bi' else [])
            for s in (8, 4 * 2 ** 14):
                hdr = vi(sig) + vi(s)
                for plen in (0, 1, 3, 5):
                    payload = bytes((0xa0 + i) & 0xff for i in range(plen))
                    data = hdr + payload
                    n, hl = len(data), len(hdr)
                    chunkings = [[n], [1] * n]
                    if plen:
                        chunkings += [[hl, plen], [hl + 1, plen - 1] if plen > 1 else [hl - 1, 2], [hl - 1, plen + 1]]
                    for lens in chunkings:
                        lens = [l for l in lens if l > 0]
                        chunks = cut(data, lens)
                        for mode in modes:
                            for ending in ('F', 'R7', ''):
                                for polls in (set(), set(range(-1, len(chunks)))):
                                    out.append('wt.recv %s %d 0 1 0 %s %s' % (kind, s, mode, hist(chunks, ending, polls)))
        return out

    def other_session_cases(self, rng):
        """the header names a session id that is not the CONNECT stream of this session: the id from the header is what must be attached"""
        out = []
        for kind, sig in (('uni', 0x54), ('bi', 0x41)):
            for s, others in ((8, (0, 4, 12, 5, 4 * 2 ** 14, 2 ** 62 - 1)), (0, (4, 63, 64)), (4 * 2 ** 14, (8, 4 * 2 ** 14 + 4))):
                for x in others:
                    data = vi(sig) + vi(x) + b'\xaa\xbb'
                    for lens in ([len(data)], [1] * len(data)):
                        for mode in ('d', 't2') + (('sd',) if kind == 'bi' else ()):
                            out.append('wt.recv %s %d 0 1 0 %s %s' % (kind, s, mode, hist(cut(data, lens), 'F', set(range(len(lens))))))
        return out

    def seg_and_size_cases(self, tier, rng):
        """the transport hands h3 non-contiguous buffers (g<n> = SimQuic SEG<n>); larger payloads"""
        out = []
        base_modes = ['d', 'r1', 'r3', 'r8', 't2', 't8']
        for kind, sig in (('uni', 0x54), ('bi', 0x41)):
            modes = base_modes + (['sd', 'st4'] if kind == 'bi' else [])
            for s in (8, 4 * 2 ** 14):
                hdr = vi(sig) + vi(s)
                for plen in (0, 3, 5):
                    payload = bytes((0xb0 + i) & 0xff for i in range(plen))
                    data = hdr + payload
                    n, hl = len(data), len(hdr)
                    for lens in ([n], [hl + 1, plen - 1] if plen > 1 else [1, n - 1], [2, n - 2]):
                        chunks = cut(data, [l for l in lens if l > 0])
                        for g in (1, 2, 3):
                            for mode in modes:
                                for ending in ('F', ''):
                                    h = hist(chunks, ending, set() if g != 2 else set(range(-1, len(chunks))))
                                    out.append('wt.recv %s %d 0 1 %d %s g%d,%s' % (kind, s, 1 if (kind == 'uni' and g == 3) else 0, mode, g, h))
            # payload sizes beyond a few bytes: in the header chunk, and following in chunks of 1200
            for size in (64, 300, 1500) + ((5000, 70000) if tier != 'quick' else ()):
                payload = bytes(rng.getrandbits(8) for _ in range(size))
                hdr = vi(sig) + vi(8)
                for first in (0, 1, min(size, 1200)):
                    chunks = [hdr + payload[:first]] + cut(payload[first:], [min(1200, size - first - k) for k in range(0, size - first, 1200)])
                    chunks = [c for c in chunks if c]
                    for mode, g in (('d', 0), ('r8', 0), ('t1500', 0), ('d', 7), ('t64', 500), ('sd' if kind == 'bi' else 'r100', 3)):
                        pre = 'g%d,' % g if g else ''
                        out.append('wt.recv %s 8 0 1 0 %s %s%s' % (kind, mode, pre, hist(chunks, 'F', {0} if g else set())))
        for g in (1, 2):
            out.append('wt.recv2 8 1 d g%d,a:c405408aabbcc,b:c40540cdd,a:F,p,b:R3' % g)
            out.append('wt.multi 8 1 t2 g%d,12:c404108aabbcc,14:c405408dd,p,12:F,14:F' % g)
        return out

    def multi_cases(self, tier, rng):
        """uni AND bidi streams pending together, two and three bidi streams, transport ids other than 6 / 10 / S+4;
        several streams opened one after the other on one session, with and without open credit (G / H)"""
        out = []
        uni_ids = [6, 10, 14, 18, 4002, 2 ** 32 + 2]
        bi_ids = [12, 16, 20, 4 * 2 ** 14 + 4, 2 ** 32]
        uni_shapes = [(vi(0x54) + vi(8) + b'\xa1\xa2\xa3', 'F'), (vi(0x54) + vi(12) + b'\xb1', 'R9'), (vi(0x54) + vi(8) + b'\xc1', ''),
                      (vi(0x54) + vi(8), ''), (vi(0x54)[:1], ''), (vi(0x54), 'F'), (vi(0x21) + b'\x01', 'F'), (b'', '')]
        bi_shapes = [(vi(0x41) + vi(8) + b'\xd1\xd2\xd3', 'F'), (vi(0x41) + vi(16) + b'\xe1', 'R4'), (vi(0x41) + vi(8) + b'\xf1\xf2', ''),
                     (vi(0x41) + vi(8), ''), (vi(0x41)[:1], ''), (vi(0x41) + vi(4 * 2 ** 14)[:2], ''), (b'', '')]
        n = 350 if tier == 'quick' else 4000
        for k in range(n):
            nu, nb = rng.choice([(1, 1), (1, 1), (0, 2), (2, 1), (1, 2), (0, 3), (2, 2)])
            ids = rng.sample(uni_ids, nu) + rng.sample(bi_ids, nb)
            queues = []
            for sid in ids:
                d, e = rng.choice(uni_shapes if sid & 2 else bi_shapes)
                mode = rng.choice(['one', 'bytes', 'rand'])
                if not d:
                    pcs = []
                elif mode == 'one':
                    pcs = [d]
                elif mode == 'bytes':
                    pcs = cut(d, [1] * len(d))
                else:
                    lens, rest = [], len(d)
                    while rest:
                        x = rng.randint(1, rest)
                        lens.append(x)
                        rest -= x
                    pcs = cut(d, lens)
                q = ['%d:c%s' % (sid, c.hex()) for c in pcs] + (['%d:%s' % (sid, e)] if e else [])
                queues.append(q or ['%d:o' % sid])
            its = ['g%d' % rng.choice([1, 2])] if rng.random() < 0.25 else []
            while any(queues):
                q = rng.choice([q for q in queues if q])
                its.append(q.pop(0))
                if rng.random() < 0.35:
                    its.append('p')
            en = 0 if rng.random() < 0.12 else 1
            out.append('wt.multi 8 %d %s %s' % (en, rng.choice(['d', 'r2', 't2', 't8']), ','.join(its)))
        for s in (0, 8, 4 * 2 ** 14, 2 ** 62 - 4):
            for ops in (['bi:aabb', 'bi:cc'], ['uni:aa', 'uni:-', 'uni:bbcc'], ['bi:-', 'uni:aa', 'bi:bb', 'uni:cc'], ['uni:aa', 'bi:bb']):
                for wb in (0, 1, 3):
                    for credit in (0, 1):
                        out.append('wt.open2 %d %d %d %d %s' % (s, rng.choice([1, 1, 0]), wb, credit, ','.join(ops)))
        return out

    def two_stream_cases(self, tier, rng):
        """two peer uni streams open at the same time (the pending_recv_streams loop): complete / incomplete / unknown headers,
        arrivals of the two streams interleaved, polls in between"""
        out = []
        shapes = [
            ('full', vi(0x54) + vi(8) + b'\xa1\xa2\xa3', 'F'),
            ('full-other', vi(0x54) + vi(12) + b'\xb1', 'R9'),
            ('open', vi(0x54) + vi(8) + b'\xc1\xc2', ''),
            ('hdr-only', vi(0x54) + vi(8), ''),
            ('trunc', vi(0x54)[:1], ''),
            ('trunc-sess', vi(0x54) + vi(4 * 2 ** 14)[:2], ''),
            ('trunc-fin', vi(0x54), 'F'),
            ('unknown', vi(0x21) + b'\x01', 'F'),
            ('empty', b'', ''),
        ]
        modes = ['d', 'r2', 't2', 't8']
        reps = 1 if tier == 'quick' else 6
        for (na, da, ea) in shapes:
            for (nb, db, eb) in shapes:
                for rep in range(reps):
                    for split in ('one', 'bytes', 'rand'):
                        def pieces(d):
                            if not d:
                                return []
                            if split == 'one':
                                return [d]
                            if split == 'bytes':
                                return cut(d, [1] * len(d))
                            lens, rest = [], len(d)
                            while rest:
                                k = rng.randint(1, rest)
                                lens.append(k)
                                rest -= k
                            return cut(d, lens)
                        qa = ['a:c' + c.hex() for c in pieces(da)] + (['a:' + ea] if ea else [])
                        qb = ['b:c' + c.hex() for c in pieces(db)] + (['b:' + eb] if eb else [])
                        its = []
                        while qa or qb:
                            src = qa if (qa and (not qb or rng.random() < 0.5)) else qb
                            its.append(src.pop(0))
                            if rng.random() < 0.4:
                                its.append('p')
                        en = 0 if rng.random() < 0.15 else 1
                        out.append('wt.recv2 8 %d %s %s' % (en, rng.choice(modes), ','.join(its) or '-'))
        return out

    @staticmethod
    def keep_cases(rng, tier):
        """tokio AsyncRead polled with a partly filled ReadBuf (mode x<k>, what read_exact does): a delivery longer than
        the space left in the buffer has to be kept by h3 for the following read"""
        out = []
        for kind, sig in (('uni', 0x54), ('bi', 0x41)):
            for s in (0, 8, 4 * 2 ** 14):
                hdr = vi(sig) + vi(s)
                for first, second in ((b'abc', b'0123456789'), (b'', b'0123456789'), (b'a', b'xy'), (b'abcdefg', b'0123456789' * 7), (b'ab', b'c'),
                                      (bytes(rng.getrandbits(8) for _ in range(rng.randint(1, 9))), bytes(rng.getrandbits(8) for _ in range(rng.randint(1, 40))))):
                    for k in (3, 8, 64):
                        for ending in ('F', ''):
                            for chunks in ([hdr + first, second], [hdr, first, second] if first else [hdr, second], [hdr + first + second]):
                                for mode in ['x%d' % k] + (['sx%d' % k] if kind == 'bi' else []):
                                    for polls in (set(), set(range(-1, len(chunks)))):
                                        out.append('wt.recv %s %d 0 1 0 %s %s' % (kind, s, mode, hist(chunks, ending, polls)))
        return out

    def cases(self, tier, rng):
        out = []
        sids = SIDS_SMALL + SIDS_BIG
        for s in sids:
            for en in (1, 0):
                out.append('wt.sess %d 0 %d' % (s, en))
                for npre in (1, 2, 3):
                    if 4 * npre <= s:
                        out.append('wt.sess %d %d %d' % (s, npre, en))
        for s in sids:
            for kind in ('bi', 'uni'):
                for plen in (0, 1, 3):
                    for wb in (0, 1, 2, 3):
                        payload = bytes(rng.getrandbits(8) for _ in range(plen))
                        npre = 1 if s >= 4 and rng.random() < 0.4 else 0
                        out.append('wt.open %s %d %d %d %d %s' % (kind, s, npre, rng.choice([1, 1, 0]), wb, payload.hex() or '-'))
        out += self.recv_cases(tier, rng)
        return out

    @staticmethod
    def _norm(out):
        # delivered data is compared by concatenation: where h3 cuts the pieces it hands out is not part of the property
        w = out.split()
        for i, t in enumerate(w):
            if t.startswith('data='):
                v = t[5:].replace('.', '').replace('-', '')
                w[i] = 'data=' + (v or '-')
        return ' '.join(w)

    def canon(self, case, out):
        w = out.split()
        if w and w[0] == 'panic':
            return 'panic'
        # a bidirectional stream that is not a WebTransport stream belongs to the request machinery (C02/C03)
        if len(w) >= 3 and w[2] == 'nowt':
            return ' '.join(w[:3])
        return self._norm(out)

    @staticmethod
    def _segments(line):
        """'ok sess=8 #12 a b #14 c close=-' -> (['ok sess=8', 'close=-'], {'12': 'a b', '14': 'c'}); single-stream lines: one segment ''"""
        w = line.split()
        head, segs, cur, key = [], {}, None, None
        for t in w:
            if t.startswith('#') or t in ('A', 'B'):
                if key is not None:
                    segs[key] = ' '.join(cur)
                key, cur = t, []
            elif key is not None and t.startswith('close='):
                segs[key] = ' '.join(cur)
                key, cur = None, None
                head.append(t)
            elif key is not None:
                cur.append(t)
            else:
                head.append(t)
        if key is not None:
            segs[key] = ' '.join(cur)
        return head, segs

    def spec_ok(self, case, out, spec):
        if spec is None:
            return True
        o, sp = self.canon(case, out), self._norm(spec)
        fam = case.split()[0]
        if fam in ('wt.sess', 'wt.open', 'wt.open2'):
            return spec_match(o, sp)
        sess = [t for t in sp.split() if t.startswith('sess=')]
        sess = sess[0][5:] if sess else None

        def words_ok(a, b):
            a, b = a.split(), b.split()
            return len(a) == len(b) and all(y == '*' or x == y or (y.endswith('=*') and x.startswith(y[:-1])) for x, y in zip(a, b))

        def seg_ok(os_, ss):
            if ss == '?':
                return True
            if words_ok(os_, ss):
                return True
            # a stream whose header names another session: attaching that id is what h3 does; not handing it to this
            # session at all (a session filter) is equally within the statement
            m = [t for t in ss.split() if t.startswith('sid=')]
            if m and m[0][4:] != sess and os_.split()[:1] == ['nostream']:
                return True
            return False
        if fam == 'wt.recv':
            ow, sw = o.split(), sp.split()
            if sw[-1:] == ['**']:
                return spec_match(o, sp)
            if len(ow) < 4 or len(sw) < 4:
                return False
            # ok sess=S <stream words> close=C stop=X
            return ow[:2] == sw[:2] and ow[-2] == sw[-2] and seg_ok(' '.join(ow[2:-2] + ow[-1:]), ' '.join(sw[2:-2] + sw[-1:]))
        oh, osg = self._segments(o)
        sh, ssg = self._segments(sp)
        if oh != sh or set(osg) != set(ssg):
            return False
        return all(seg_ok(osg[k], ssg[k]) for k in ssg)

    def nontrivial_key(self, case, impl_out):
        if not impl_out.startswith('ok sess='):
            return None
        w = case.split()
        if w[0] == 'wt.recv' and 'c' not in [t[0] for t in w[7].split(',') if t]:
            return None
        if w[0] in ('wt.recv2', 'wt.multi') and ':c' not in w[4]:
            return None
        return case

    def shrink_candidates(self, case):
        w = case.split()
        if w[0] != 'wt.recv':
            return []
        its = w[7].split(',')
        out = []
        for i in range(len(its)):
            if its[i] == 'p':
                out.append(' '.join(w[:7] + [','.join(its[:i] + its[i + 1:]) or '-']))
        return out


PROP = P()
