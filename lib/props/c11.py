"""C11 - QPACK field sections: what h3 writes and accepts is RFC 9204, exactly."""
import json
import os
import re

from core import Property, ROOT, run_cases

# ------------------------------------------------------------------ independent RFC data (never h3's tables)


def load_static():
    """RFC 9204 Appendix A as transcribed in coq/Spec/RFC9204AppendixA.v (the Coq side proves it equal to h3's rows)."""
    txt = open(os.path.join(ROOT, 'coq', 'Spec', 'RFC9204AppendixA.v')).read()
    txt = txt[txt.index('rfc9204_static_strings'):txt.index('Local Close Scope string_scope')]
    rows = re.findall(r'\(\s*"([^"]*)"\s*,\s*"([^"]*)"\s*\)', txt)
    assert len(rows) == 99, len(rows)
    return [(a.encode(), b.encode()) for a, b in rows]


def load_huffman():
    txt = open(os.path.join(ROOT, 'spec-data', 'rfc7541_huffman__octets_crate.txt')).read()
    rows = [(int(a), int(b, 16)) for a, b in re.findall(r'\(\s*(\d+)\s*,\s*(0x[0-9a-f]+)\s*\)', txt)]
    assert len(rows) == 257
    return ['{:0{w}b}'.format(c, w=l) for l, c in rows]


STATIC = load_static()
NAMES = sorted({n for n, _ in STATIC})
CODE = load_huffman()


def huff(s, pad_ones=None):
    bits = ''.join(CODE[b] for b in s)
    bits += '1' * ((-len(bits) % 8) if pad_ones is None else pad_ones)
    bits += '0' * (-len(bits) % 8)
    return bytes(int(bits[i:i + 8], 2) for i in range(0, len(bits), 8))


def pint(n, flags, v, extra=0):
    """RFC 7541 5.1 integer on an n-bit prefix; `extra` appends non-minimal zero continuation groups"""
    mask = (1 << n) - 1
    top = (flags << n) & 0xff
    if v < mask:
        return bytes([top | v])
    out = [top | mask]
    r = v - mask
    groups = []
    while r >= 128:
        groups.append(r % 128)
        r //= 128
    groups.append(r)
    groups += [0] * extra
    out += [g | 128 for g in groups[:-1]] + [groups[-1]]
    return bytes(out)


def hx(b):
    return bytes(b).hex() or '-'


def fields_str(fs):
    return ','.join('%s:%s' % (hx(n), hx(v)) for n, v in fs) or '-'


def rb(rng, n):
    return bytes(rng.getrandbits(8) for _ in range(n))


def rand_bytes_string(rng, n):
    k = rng.random()
    if k < 0.45:
        return bytes(rng.choice(b'abcdefghijklmnopqrstuvwxyz0123456789-/.:=; ') for _ in range(n))
    if k < 0.8:
        return rb(rng, n)
    return bytes(rng.choice([0, 1, 10, 13, 32, 34, 48, 58, 97, 127, 128, 195, 249, 254, 255]) for _ in range(n))


def rand_len(rng):
    return rng.choice([0, 0, 1, 1, 2, 3, 5, 6, 7, 8, 9, 15, 16, 17, 30, 31, 32, 100, 126, 127, 128, 129, 254, 255, 256, 300,
                       rng.randint(0, 300), rng.randint(0, 40)])


def rand_field(rng):
    k = rng.random()
    if k < 0.3:                                   # name + value hit
        return rng.choice(STATIC)
    if k < 0.6:                                   # name hit only
        n = rng.choice(NAMES)
        v = rand_bytes_string(rng, rand_len(rng))
        if rng.random() < 0.15:                   # a value of ANOTHER row of the same / another name
            v = rng.choice(STATIC)[1]
        return (n, v)
    if k < 0.7:                                   # near misses of table names
        n = bytearray(rng.choice(NAMES))
        j = rng.random()
        if j < 0.3 and n:
            n[rng.randrange(len(n))] ^= 1 << rng.randrange(8)
        elif j < 0.5:
            n = n[:-1]
        elif j < 0.7:
            n += b'x'
        else:
            n = bytearray(bytes(n).upper())
        return (bytes(n), rng.choice(STATIC)[1] if rng.random() < 0.5 else rand_bytes_string(rng, rand_len(rng)))
    return (rand_bytes_string(rng, rand_len(rng)), rand_bytes_string(rng, rand_len(rng)))


def rand_fields(rng, maxn=8):
    return [rand_field(rng) for _ in range(rng.choice([0, 1, 1, 2, 3, rng.randint(0, maxn)]))]


# ------------------------------------------------------------------ a python encoder producing VARIED valid encodings

def enc_string(rng, n, f, s, plain=False):
    """string literal, length on an n-bit prefix, f = bits above H"""
    if not plain and rng.random() < 0.5:
        p = huff(s)
        return pint(n, 2 * f + 1, len(p), rng.choice([0, 0, 0, 1, 2])) + p
    return pint(n, 2 * f, len(s), rng.choice([0, 0, 0, 1, 2])) + s


def enc_line(rng, name, value, plain=False):
    """returns (bytes, kind)"""
    exact = [i for i, r in enumerate(STATIC) if r == (name, value)]
    byname = [i for i, r in enumerate(STATIC) if r[0] == name]
    k = rng.random()
    ex = 0 if plain else rng.choice([0, 0, 0, 1, 3])
    if exact and k < 0.6:
        return pint(6, 3, rng.choice(exact), ex), 'indexed'
    if byname and k < 0.85:
        return pint(4, 5 + 2 * rng.randint(0, 1), rng.choice(byname), ex) + enc_string(rng, 7, 0, value, plain), 'nameref'
    return enc_string(rng, 3, 2 + rng.randint(0, 1), name, plain) + enc_string(rng, 7, 0, value, plain), 'literal'


def enc_section(rng, fs, plain=False):
    """(prefix, [line bytes], [kinds])"""
    delta = 0 if plain else rng.choice([0, 0, 0, 1, 5, 126, 127, 128, 300, 2 ** 20])
    prefix = b'\x00' + pint(7, 0, delta, 0 if plain else rng.choice([0, 0, 1]))
    lines = [enc_line(rng, n, v, plain) for n, v in fs]
    return prefix, [l for l, _ in lines], [k for _, k in lines]


def mutate(rng, prefix, lines):
    """grammar-directed single-point mutation of a valid encoding"""
    e = bytearray(prefix + b''.join(lines))
    starts, pos = [], len(prefix)
    for l in lines:
        starts.append(pos)
        pos += len(l)
    k = rng.random()
    if k < 0.12:                                            # required insert count
        e[0] = rng.choice([1, 2, 5, 0x7f, 0x80, 0xfe, 0xff])
    elif k < 0.2:                                           # sign bit of the base
        e[1] |= 0x80
    elif k < 0.45 and starts:                               # first octet of a line: T bit, pattern bits, index
        s = rng.choice(starts)
        b = e[s]
        j = rng.random()
        if b & 0x80:
            e[s] = b & 0xbf if j < 0.4 else (b | 0x3f if j < 0.6 else rng.choice([0x10, 0x1f, 0x00, 0x0f]))
            if j >= 0.4 and j < 0.6:
                e[s + 1:s + 1] = bytes([rng.choice([36, 35, 37, 0, 200])])        # index 63+x: 98 / 99 / 100 / 63 / overflow-ish
        elif b & 0x40:
            e[s] = b & 0xef if j < 0.5 else (b | 0x0f if j < 0.7 else b ^ 0x40)
            if 0.5 <= j < 0.7:
                e[s + 1:s + 1] = bytes([rng.choice([83, 84, 85, 0])])             # index 15+x: 98 / 99 / 100
        else:
            e[s] = b ^ rng.choice([0x20, 0x10, 0x30, 0x08, 0x80])
    elif k < 0.6 and len(e) > 2:                            # flip one bit anywhere after the prefix
        i = rng.randrange(2 * 8, len(e) * 8)
        e[i // 8] ^= 0x80 >> (i % 8)
    elif k < 0.75 and len(e) > 0:                           # truncate
        e = e[:rng.randrange(len(e))]
    elif k < 0.85:                                          # insert an octet
        i = rng.randrange(len(prefix), len(e) + 1)
        e[i:i] = rb(rng, 1)
    elif k < 0.93 and len(e) > 2:                           # delete an octet
        i = rng.randrange(2, len(e))
        del e[i]
    else:                                                   # trailing garbage
        e += rb(rng, rng.randint(1, 3))
    return bytes(e)


def hp_parts(max_size, req, base):
    """RFC 9204 4.5.1: (Encoded Required Insert Count, S, Delta Base) for a Required Insert Count and a Base
    (a section without dynamic references is written with an all-zero prefix)"""
    if req == 0:
        return (0, 0, 0)
    eic = req % (2 * (max_size // 32)) + 1
    if base >= req:
        return (eic, 0, base - req)
    return (eic, 1, req - base - 1)


def hpe_case(max_size, b, m, k):
    """q.hpe: b old insertions, a section referencing old entry m (0 = none) and inserting k new entries"""
    req = b + k if k else m
    return 'q.hpe %d %d %d %d %d %d %d' % ((max_size, b, m, k) + hp_parts(max_size, req, b))


# ------------------------------------------------------------------ property

class P(Property):
    id = 'C11'
    gen_modules = ['gen_codes', 'gen_static', 'gen_qstateless', 'gen_limits', 'gen_prefixint', 'gen_huffman', 'gen_huffman_enc', 'gen_prefixstring', 'gen_bitwin', 'gen_huffiter']
    extra_bins = ['c10']          # the scripted-peer harness over SimQuic: bad sections at the three receive sites
    properties_v = 'Properties/C11.v'
    model_targets = ['Model/QpackStateless.vo', 'Spec/RFC9204Static.vo', 'Spec/FieldSize.vo']
    extract_v = 'Extract/ExtractC11.v'
    driver_ml = 'C11_driver.ml'
    harness_bin = 'c11'
    rule = ('q.enc: seeded field lists of 0..8 (some up to 300) fields, names/values over all byte values with lengths 0..300, hitting the '
            'static table by name+value, by name only (incl. values of other rows), near-miss names, and not at all, every one of the '
            '99 rows alone; the bytes written by the implementation are decoded by the extracted RFC 9204 reference decoder and must '
            'give the input list. q.dec: every octet string of length 0..2 after each of the prefixes "", 00, 0000, 0000d1, 000051, 000027 '
            '(quick); in thorough every string of length 3 after 0000 and of length 2 after 00xx as q.blk digests over 256 inputs per line, valid encodings produced by an independent python encoder (raw/Huffman strings, N bits, '
            'non-minimal integers, Delta Base values) and their grammar-directed single-point mutations (Required Insert Count, S bit, '
            'T bit, pattern bits, static index 98/99/100, bit flips, truncation, insertion, deletion, trailing octets), integers with '
            '8..11 continuation octets, Huffman payloads with 0..40 bits of one-padding, seeded random strings, finite limits around '
            'the section size, sections of 50..1000 field lines (valid, and with one bad line first / in the middle / last), string lengths k*2^32+j, k*2^16+j with j octets present in all four string positions; every q.enc output is also read back by the own decoder of h3; the HEADERS payloads written by the three production send sites (both roles, lists up to 300 fields x 300 octets) are read back by the reference decoder; the section prefix at S x Delta Base up to 2^63+126 and Required Insert Count up to 2^64-1; string literals of 301..65536 octets (2^20 in thorough) really present in all four positions, raw and (up to 4097 / 16511) Huffman; 150 (quick) refused sections are sent by a scripted peer to the real server and client over SimQuic as request, response, request trailers and response trailers: connection error 0x200 and close(0x200) required; q.decc: the same kinds of inputs handed over as NON-contiguous multi-chunk buffers (h3v::ChunkBuf), cut at every position (one cut), at every pair of positions (two cuts), into single octets, and at seeded random positions. q.hpe: the section prefix written by HeaderPrefix::encode with non-zero components (the real stateful encoder steered to Required Insert Count 0..800 and Base 0..400, S = 0 and S = 1, one- to three-octet integers in both positions) against the hp_encode / hp_decode and the RFC 9204 4.5.1 reading of the written octets; the error class word of the model column comes from decompression_failed of the model. non-trivial = distinct q.enc cases with a '
            'non-empty list and distinct q.dec/q.decc cases in which the field-line loop is entered (a 2-octet prefix with Required '
            'Insert Count 0 and S=0 followed by at least one octet) and q.hpe cases with a non-zero Required Insert Count')
    trusted_extra = [
        'coq/Spec/RFC9204Static.v: the 99 rows of RFC 9204 Appendix A transcribed by hand from the RFC (proved equal to h3\'s rows)',
        'lib/props/c11.py: python encoder used only to BUILD valid and mutated inputs; verdicts come from the extracted reference decoder',
        'implementation limits the RFC allows are not part of the grammar: integers with more than 9 continuation octets and Huffman '
        'string literals of 2^29-1 octets or more are refused by h3 although RFC-valid (the oracle marks the former ^limit)',
    ]

    def __init__(self):
        self.kf = None
        for fn in ('known_findings.json', 'known_findings_C11.json'):
            p = os.path.join(ROOT, fn)
            if os.path.exists(p):
                try:
                    data = json.load(open(p))
                except Exception:
                    continue
                for e in data.get('open', []):
                    if e.get('property') == 'C11' and e.get('match', {}).get('class') == 'LongOnes':
                        self.kf = e
                        break
            if self.kf:
                break

    # ------------------------------------------------------------------ cases
    def cases(self, tier, rng):
        out = []
        quick = tier == 'quick'
        # --- encode
        out.append('q.enc -')
        for r in STATIC:
            out.append('q.enc ' + fields_str([r]))
            out.append('q.enc ' + fields_str([(r[0], r[1] + b'x')]))
            out.append('q.enc ' + fields_str([(r[0], b'')]))
        out.append('q.enc ' + fields_str(STATIC))
        # the lookup arms as the CURRENT source has them (a changed or added arm is exercised with its own key,
        # so that a wrong arm yields a concrete failing input and not only a broken table lemma)
        try:
            import gen_static
            import core
            facts, _ = gen_static.extract(core.REPO)
            for n, v, _i in facts['find']:
                out.append('q.enc ' + fields_str([(n, v)]))
            for n, _i in facts['find_name']:
                out.append('q.enc ' + fields_str([(n, b'zz')]))
        except Exception:
            pass
        out.append('q.enc ' + fields_str([(b'', b'')]))
        out.append('q.enc ' + fields_str([(b'', b''), (b'', b'')]))
        out.append('q.enc ' + fields_str([(bytes(range(256)), bytes(range(255, -1, -1)))]))
        for n in (1, 6, 7, 8, 126, 127, 128, 255, 256, 300):
            out.append('q.enc ' + fields_str([(b'n' * n, b'v' * n)]))
            out.append('q.enc ' + fields_str([(rb(rng, n), rb(rng, n))]))
        # every row's value in another letter case, padded with SP / HTAB, with an octet prepended / dropped: none of them
        # is the row, so none may be written as the row's index
        for n, v in STATIC:
            alts = {v.upper(), v.lower(), v.swapcase(), v.title(), b' ' + v, v + b' ', b'\t' + v, v + b'\t', b'x' + v, v[:-1], v + b'\x00'}
            for a in sorted(alts - {v}):
                out.append('q.enc ' + fields_str([(n, a)]))
            for a in sorted({n.upper(), n.title(), n + b' ', b' ' + n} - {n}):
                out.append('q.enc ' + fields_str([(a, v)]))
        for _ in range(3000 if quick else 200000):
            out.append('q.enc ' + fields_str(rand_fields(rng)))
        for _ in range(3 if quick else 60):
            out.append('q.enc ' + fields_str([rand_field(rng) for _ in range(rng.choice([40, 100, 300]))]))
        # --- decode: exhaustive short strings after a few prefixes
        prefixes = ['', '00', '0000', '0000d1', '000051', '000027']
        for p in prefixes:
            out.append('q.dec - ' + (p or '-'))
            for a in range(256):
                out.append('q.dec - %s%02x' % (p, a))
            for a in range(65536):
                out.append('q.dec - %s%04x' % (p, a))
        for pfx in ('0000', '000051', '0000d1', '00002a', '000081'):
            out.append('q.blk %s 1' % pfx)
        if not quick:
            # every octet string of length 3 after the 2-octet prefix (16.7 M inputs, digest over 256 inputs per line)
            for a in range(65536):
                out.append('q.blk 0000%04x 1' % a)
            for a in range(256):
                out.append('q.blk 00%02x 2' % a)          # and of length 2 after every first prefix octet pair 00 xx
        # the whole first-octet space of a field line followed by a plausible tail
        for a in range(256):
            for tail in ('', '00', '01 61', '8161', '0161 0162', 'ff00', 'ff24', 'ff25'):
                out.append('q.dec - 0000%02x%s' % (a, tail.replace(' ', '')))
        # --- decode: valid encodings and single-point mutations
        nvalid = 4000 if quick else 250000
        for i in range(nvalid):
            fs = rand_fields(rng, 6)
            prefix, lines, _ = enc_section(rng, fs, plain=(i % 7 == 0))
            e = prefix + b''.join(lines)
            if len(e) > 20000:
                continue
            out.append('q.dec - ' + hx(e))
            for _ in range(3):
                out.append('q.dec - ' + hx(mutate(rng, prefix, lines)))
            if i % 5 == 0 and len(e) > 3:
                cuts = sorted({rng.randrange(1, len(e)) for _ in range(rng.randint(1, 4))})
                parts = [e[a:b] for a, b in zip([0] + cuts, cuts + [len(e)])]
                out.append('q.decc - ' + '.'.join(p.hex() for p in parts))
                m = mutate(rng, prefix, lines)
                if len(m) > 2:
                    c = rng.randrange(1, len(m))
                    out.append('q.decc - %s.%s' % (m[:c].hex(), m[c:].hex()))
            if i % 4 == 0:
                size = sum(len(n) + len(v) + 32 for n, v in fs)
                for d in (-2, -1, 0, 1, 2):
                    if size + d >= 0:
                        out.append('q.dec %d %s' % (size + d, hx(e)))
                if fs:
                    out.append('q.dec %d %s' % (rng.randint(0, size), hx(e)))
        # --- non-contiguous buffers: the same section cut at EVERY position (1 cut) and every pair of positions (2 cuts)
        for i in range(6 if quick else 60):
            fs = [rng.choice(STATIC), (rng.choice(NAMES), rand_bytes_string(rng, rng.randint(0, 6))),
                  (rand_bytes_string(rng, rng.randint(1, 5)), rand_bytes_string(rng, rng.randint(0, 5)))]
            rng.shuffle(fs)
            prefix, lines, _ = enc_section(rng, fs[:rng.randint(1, 3)], plain=(i % 3 == 0))
            e = prefix + b''.join(lines)
            variants = [e, mutate(rng, prefix, lines)]
            for e in variants:
                if len(e) < 2 or len(e) > 40:
                    continue
                for a in range(1, len(e)):
                    out.append('q.decc - %s.%s' % (e[:a].hex(), e[a:].hex()))
                    for b in range(a + 1, len(e)):
                        out.append('q.decc - %s.%s.%s' % (e[:a].hex(), e[a:b].hex(), e[b:].hex()))
                out.append('q.decc - ' + '.'.join('%02x' % x for x in e))
                size = sum(len(n) + len(v) + 32 for n, v in fs)
                for a in range(1, len(e)):
                    out.append('q.decc %d %s.%s' % (rng.randint(0, size), e[:a].hex(), e[a:].hex()))
        for m in (0, 1, 31, 32, 33, 41, 42, 43, 2 ** 62 - 1, 2 ** 64 - 1):
            out.append('q.dec %d 0000d1' % m)
            out.append('q.dec %d 0000' % m)
            out.append('q.dec %d 0000d1d1' % m)
            out.append('q.dec %d 0000d110' % m)      # too long before / instead of the dynamic reference
        # --- long sections: 50..1000 field lines, all valid, and with ONE bad line at the front / a random position / the end
        def line(rng_):
            k = rng_.random()
            if k < 0.6:
                return pint(6, 3, rng_.randrange(99))
            if k < 0.85:
                return pint(4, 5, rng_.randrange(99)) + b'\x01v'
            return b'\x21x\x01v'
        bads = [b'\x10', b'\x00\x01v', b'\x81', b'\xff\x24', b'\x5f\x54\x01v', b'\x41\x01v', b'\x51\x05v', b'\x2f']
        for nlines in [50, 99, 100, 101, 127, 128, 129, 255, 256, 257, 300, 500, 1000] + [rng.randint(50, 1000) for _ in range(4 if quick else 100)]:
            ls = [line(rng) for _ in range(nlines)]
            out.append('q.dec - 0000' + b''.join(ls).hex())
            out.append('q.dec %d 0000%s' % (rng.randint(0, 40 * nlines), b''.join(ls).hex()))
            for pos in sorted({0, nlines // 2, nlines - 1, nlines, rng.randint(0, nlines)}):
                bad = rng.choice(bads)
                out.append('q.dec - 0000' + b''.join(ls[:pos] + [bad] + ls[pos:]).hex())
            cut = len(b''.join(ls)) // 2
            e = b'\x00\x00' + b''.join(ls) + rng.choice(bads)
            out.append('q.decc - %s.%s' % (e[:cut].hex(), e[cut:].hex()))
        # --- string lengths that wrap a narrower integer type: k*2^32 + j and k*2^16 + j with only j octets present,
        #     in every string position (name-reference value static / dynamic, literal name, literal value), raw and Huffman
        for k, sh in ((1, 32), (2, 32), (255, 32), (2 ** 20, 32), (1, 16), (3, 16), (1, 8), (1, 31), (1, 29), (1, 33), (1, 48), (1, 62)):
            for j in (0, 1, 2, 5):
                n = k * 2 ** sh + j
                for hbit, body in ((0, b'v' * j), (1, huff(b'v' * j))):
                    nb = k * 2 ** sh + len(body)
                    for pre, n_, tail in ((b'\x51', 7, b''), (b'\x41', 7, b''), (b'', 3, b'\x01v'), (b'\x21x', 7, b'')):
                        fl = hbit if n_ == 7 else 4 + hbit
                        out.append('q.dec - 0000' + (pre + pint(n_, fl, nb) + body + tail).hex())
                        out.append('q.dec - 0000' + (pre + pint(n_, fl, nb) + body + tail + b'\xd1').hex())
        # --- the section prefix at its magnitudes: S x Delta Base up to 2^63+126 (the largest the integer decoder reads),
        #     Required Insert Count at multiples of 256 and powers of two
        for delta in (0, 1, 126, 127, 128, 2 ** 16, 2 ** 31 - 1, 2 ** 31, 2 ** 32 - 1, 2 ** 32, 2 ** 43, 2 ** 62 - 1, 2 ** 62,
                      2 ** 63 - 2, 2 ** 63 - 1, 2 ** 63, 2 ** 63 + 1, 2 ** 63 + 125, 2 ** 63 + 126, 2 ** 63 + 127, 2 ** 64 - 1):
            for sbit in (0, 1):
                for ex in (0, 1):
                    e = pint(7, sbit, delta, ex)
                    out.append('q.dec - 00' + e.hex() + 'd1')
                    out.append('q.dec - 00' + e.hex())
                    out.append('q.dec 41 00' + e.hex() + 'd1')
        for ric in (1, 2, 254, 255, 256, 257, 511, 512, 2 ** 16, 2 ** 16 + 256, 2 ** 28, 2 ** 32, 2 ** 32 + 256, 2 ** 62, 2 ** 63,
                    2 ** 63 + 254, 2 ** 63 + 255, 2 ** 64 - 1):
            for tail in ('00d1', '80d1', '00', ''):
                out.append('q.dec - ' + pint(8, 0, ric).hex() + tail)
        # --- the section prefix as `HeaderPrefix::encode` WRITES it when Required Insert Count / Base are not zero (the stateless
        #     encoder only ever writes 00 00): the real stateful encoder is steered to required = b+k / m and base = b, the model
        #     encodes the RFC 9204 4.5.1 components; one-, two- and three-octet integers in both positions, S = 0 and S = 1
        marks = [0, 1, 2, 3, 62, 63, 64, 125, 126, 127, 128, 129, 130, 253, 254, 255, 256, 257, 381, 382, 383, 384, 400]
        hpe = set()
        for b in marks:
            fit = 40 * b + 64
            hpe.add((fit, b, 0, 0))
            for m in {1, 2, b // 2, b - 127, b - 128, b - 1, b}:
                if 1 <= m <= b:
                    hpe.add((fit, b, m, 0))
                    hpe.add((2 ** 30 - 1, b, m, 0))
            for k in (1, 2, 3, 127, 128, 129, 130, 254, 255, 256, 383, 384):
                if b in (0, 1, 127, 254, 255, 383) or k in (1, 128, 129):
                    hpe.add((40 * (b + k) + 64, b, rng.choice([0, b]), k))
        for _ in range(300 if quick else 3000):
            b, k = rng.choice(marks + [rng.randint(0, 400)]), rng.choice([0, 0, 1, rng.randint(0, 400), rng.choice(marks)])
            m = rng.choice([0, b, rng.randint(0, b)])
            hpe.add((rng.choice([40 * (b + k) + 64, 40 * (b + k) + 64 + rng.randint(0, 4096), 2 ** 20, 2 ** 30 - 1]), b, m, k))
        for t in sorted(hpe):
            out.append(hpe_case(*t))
        # --- long string literals that are really PRESENT, in all four string positions, raw and Huffman
        #     (Huffman only up to 4097 / 16511 octets: the extracted decoder model is quadratic in the payload length)
        raw_lens = [301, 1024, 4095, 4096, 4097, 16511, 65536] + ([] if quick else [2 ** 20])
        huf_lens = [301, 1024, 4096, 4097] + ([] if quick else [16511])
        for hbit, lens in ((0, raw_lens), (1, huf_lens)):
            for n in lens:
                s = bytes((97 + (i * 7 + n) % 26) for i in range(n))
                body = huff(s) if hbit else s
                for pre, n_, tail in ((b'\x51', 7, b''), (b'\x5f\x53', 7, b'\xd1'), (b'\x41', 7, b''), (b'', 3, b'\x01v'), (b'\x21x', 7, b'\xd1')):
                    fl = hbit if n_ == 7 else 4 + hbit
                    out.append('q.dec - 0000' + (pre + pint(n_, fl, len(body)) + body + tail).hex())
                    if n <= 4097:
                        out.append('q.dec %d 0000%s' % (n + 40, (pre + pint(n_, fl, len(body)) + body + tail).hex()))
                # the same strings through the encoder
                if n <= (4097 if quick else 16511):
                    out.append('q.enc ' + fields_str([(b':path', s)]))
                    out.append('q.enc ' + fields_str([(s, s[:7])]))
        # --- big blocks: 300 fields of 300 octets
        for _ in range(1 if quick else 8):
            out.append('q.enc ' + fields_str([(b'n%d' % i, rb(rng, 300)) for i in range(300)]))
            out.append('q.enc ' + fields_str([(rng.choice(NAMES), rand_bytes_string(rng, 300)) for _ in range(300)]))
        # --- every static index, indexed and by name, around the end of the table
        for i in list(range(0, 130)) + [255, 256, 2 ** 16, 2 ** 32, 2 ** 62, 2 ** 63, 2 ** 63 + 62, 2 ** 63 + 63, 2 ** 64 - 1, 2 ** 64 + 5]:
            out.append('q.dec - 0000' + pint(6, 3, i).hex())
            out.append('q.dec - 0000' + pint(6, 2, i).hex())                 # T = 0
            out.append('q.dec - 0000' + pint(4, 5, i).hex() + '0161')
            out.append('q.dec - 0000' + pint(4, 7, i).hex() + '8161')        # N bit; Huffman flag with a bad payload
            out.append('q.dec - 0000' + pint(4, 4, i).hex() + '0161')        # T = 0
            out.append('q.dec - 0000' + pint(4, 1, i).hex())                 # post-base indexed
            out.append('q.dec - 0000' + pint(3, 0, i).hex() + '0161')        # post-base name reference
        # --- long / non-minimal integers (8..11 continuation octets) in every integer position
        for ex in range(0, 12):
            out.append('q.dec - 0000' + pint(6, 3, 63 + 5, ex).hex())
            out.append('q.dec - 0000' + pint(4, 5, 15 + 2, ex).hex() + '0161')
            out.append('q.dec - 000051' + pint(7, 0, 127 + 3, ex).hex() + '61' * 130)
            out.append('q.dec - 0000' + pint(3, 4, 7 + 1, ex).hex() + '61' * 8 + '0162')
            out.append('q.dec - 00' + pint(7, 0, 127, ex).hex() + 'd1')
            out.append('q.dec - ' + (pint(8, 0, 255, ex) or b'').hex() + '00d1')
        for v in (2 ** 62, 2 ** 63 - 1, 2 ** 63 + 14, 2 ** 63 + 15, 2 ** 64, 2 ** 70):
            out.append('q.dec - 0000' + pint(4, 5, v).hex() + '0161')
            out.append('q.dec - 000051' + pint(7, 0, v).hex() + '61')
            out.append('q.dec - 00' + pint(7, 0, v).hex() + 'd1')
        # --- Huffman payloads with 0..40 bits of one padding (class boundary), EOS inside, bad padding
        for _ in range(8 if quick else 300):
            s = rand_bytes_string(rng, rng.randint(0, 5))
            bits = ''.join(CODE[b] for b in s)
            for k in range(0, 41):
                if (len(bits) + k) % 8 == 0:
                    p = huff(s, k)
                    out.append('q.dec - 000051' + pint(7, 1, len(p)).hex() + p.hex())
                    out.append('q.dec - 0000' + pint(3, 5, len(p)).hex() + p.hex() + '0161')
                    out.append('q.dec - 0000' + pint(3, 4, 1).hex() + '61' + pint(7, 1, len(p)).hex() + p.hex() + 'd1')
            bad = bytearray(huff(s + b'a'))
            bad[-1] &= 0xfe
            out.append('q.dec - 000051' + pint(7, 1, len(bad)).hex() + bytes(bad).hex())
        # --- random strings
        for _ in range(6000 if quick else 600000):
            out.append('q.dec - 0000' + rb(rng, rng.randint(1, 24)).hex())
        for _ in range(1500 if quick else 150000):
            out.append('q.dec - ' + hx(rb(rng, rng.randint(0, 12))))
        return out

    # ------------------------------------------------------------------ comparison
    def canon(self, case, out):
        w = out.split()
        if not w:
            return out
        if w[0] == 'panic':
            return 'panic'
        if w[0] == 'err' and len(w) >= 2 and w[1] in ('decomp', 'toolong'):
            return 'err ' + w[1]
        return out

    @staticmethod
    def split_spec(spec):
        lax = None
        if ' ~ ' in spec:
            spec, lax = spec.split(' ~ ', 1)
        limit = spec.endswith(' ^limit')
        if limit:
            spec = spec[:-len(' ^limit')]
        return spec.strip(), limit, (lax.strip() if lax is not None else None)

    def known_class_hit(self, case, out, spec):
        if self.kf is None or spec is None or not case.startswith('q.dec'):
            return False
        strict, _, lax = self.split_spec(spec)
        return lax is not None and self.canon(case, out) == lax and self.canon(case, out) != strict

    def spec_ok(self, case, out, spec):
        if spec is None:
            return True
        out = self.canon(case, out)
        if case.startswith('q.blk'):
            a, b = out.split(), spec.split()
            return len(a) == 3 and len(b) == 4 and a[:3] == b[:3]
        if case.startswith('q.hpe'):
            a, b = out.split(), spec.split()
            # bytes: model = impl exactly (core), reference reading of the model bytes (driver) and of the written bytes (extra_checks)
            return len(a) == 3 and len(b) == 3 and a[0] == 'ok' and b[1] == '*' and a[2] == b[2]
        if case.startswith('q.enc'):
            a, b = out.split(), spec.split()
            # the bytes themselves are judged by the reference decoder (driver for the model, extra_checks for the implementation)
            return len(a) == 3 and len(b) == 3 and a[0] == 'ok' and b[1] == '*' and a[2] == b[2]
        strict, limit, lax = self.split_spec(spec)
        if strict == 'err *':
            return out.startswith('err ')
        if out == strict:
            return True
        if limit and out == 'err decomp':
            return True
        return self.known_class_hit(case, out, spec)

    def extra_checks(self, ctx):
        viol = []
        # 1. what the implementation WROTE, read back by the reference decoder
        encs = [(c, i) for c, i, m, s in ctx['rows'] if c.startswith('q.enc') and i.startswith('ok ')]
        if encs and ctx['model_exe']:
            lines = ['q.ref ' + i.split()[1] for _, i in encs]
            res = run_cases(ctx['model_exe'], lines)
            for (c, i), r in zip(encs, res):
                want = 'ok ' + c.split()[1]
                if r.split(' | ')[0].strip() != want:
                    viol.append(('property-fails-on-input', {'input': c, 'impl': i, 'model': None,
                                                             'spec': 'reference decoder on the written bytes: %s (expected %s)' % (r[:200], want[:200])}))
                    if len(viol) >= 3:
                        break
        # 1b. ... and by the implementation's OWN decoder: the same list, in order, with the same size
        if encs and len(viol) < 3:
            res = run_cases(ctx['bins'][self.harness_bin], ['q.dec - ' + i.split()[1] for _, i in encs])
            for (c, i), r in zip(encs, res):
                want = 'ok %s %s' % (c.split()[1], i.split()[2])
                if r.strip() != want:
                    viol.append(('property-fails-on-input', {'input': 'q.dec - ' + i.split()[1], 'impl': r[:300], 'model': None,
                                                             'spec': 'h3 reading back its own encoding of %s: expected %s' % (c[:200], want[:200])}))
                    break
        # 1c. the three receive sites of the real server / client over SimQuic: a section that is not RFC 9204 (strict AND lax
        #     reading) is a CONNECTION error with code QPACK_DECOMPRESSION_FAILED = 0x200 (RFC 9204 section 6), closed with it
        bad = [c.split()[2] for c, i, m, s in ctx['rows']
               if c.startswith('q.dec - ') and s is not None and s.strip() == 'err decomp' and len(c) < 400 and c.split()[2] != '-']
        if bad and 'c10' in ctx['bins'] and len(viol) < 3:
            rng = ctx['rng']
            pick = bad[:40] + [rng.choice(bad) for _ in range(110 if ctx['tier'] == 'quick' else 3000)]
            lines = []
            for h in pick:
                for role, kind in (('srv', 'hdr'), ('cli', 'hdr'), ('srv', 'trl'), ('cli', 'trl')):
                    lines.append('lim.rx %s %s 4611686018427387903 none %s' % (role, kind, h))
            res = run_cases(ctx['bins']['c10'], lines)
            self.site_cases = len(lines)
            for l, r in zip(lines, res):
                w = r.split()
                ok = len(w) == 3 and w[0].startswith('res=err:c:512:') and w[1] == 'tx=-' and w[2] == 'log=close:512'
                if not ok:
                    viol.append(('property-fails-on-input', {'input': l, 'impl': r[:300], 'model': None,
                                                             'spec': 'res=err:c:512 tx=- log=close:512 (connection error QPACK_DECOMPRESSION_FAILED)'}))
                    break
        # 1d. the three PRODUCTION encode sites (send_request, send_response, send_trailers, both roles) over SimQuic: the payload of the
        #     HEADERS frame they write, read by the reference decoder, must be the message's field list, in order
        if 'c10' in ctx['bins'] and ctx['model_exe'] and len(viol) < 3:
            rng = ctx['rng']
            vals = bytes(range(0x20, 0x7f)) + bytes(range(0x80, 0x100)) + b'\t'

            def hv(n):
                v = bytes(rng.choice(vals) for _ in range(n))
                return v.strip(b' \t') or b'v'                         # the http crate keeps values verbatim; avoid OWS-only edge values
            lists = [[], [(b'x', b'v')], [(b'n%d' % i, hv(300)) for i in range(300)], [(b'n%d' % i, hv(300)) for i in range(60)],
                     [(rng.choice(NAMES).lstrip(b':') + b'-%d' % i, hv(rng.randint(1, 300))) for i in range(rng.randint(1, 40))]]
            for _ in range(6 if ctx['tier'] == 'quick' else 200):
                lists.append([(b'h%d' % i, hv(rng.choice([1, 7, 127, 128, 300]))) for i in range(rng.choice([1, 5, 55, 56, 100, 300]))])
            pseudo = {'cli.req': [(b':method', b'GET'), (b':scheme', b'https'), (b':authority', b'a'), (b':path', b'/')],
                      'srv.resp': [(b':status', b'200')], 'cli.trl': [], 'srv.trl': []}
            lines, want = [], []
            for fs in lists:
                for site in ('cli.req', 'srv.resp', 'cli.trl', 'srv.trl'):
                    lines.append('site.enc %s %s' % (site, fields_str(fs)))
                    want.append(fields_str(pseudo[site] + fs))
            res = run_cases(ctx['bins']['c10'], lines)
            refs = run_cases(ctx['model_exe'], ['q.ref ' + (r.split()[1] if r.startswith('ok ') and len(r.split()) == 2 else '00') for r in res])
            self.site_enc_cases = len(lines)
            for l, r, d, wnt in zip(lines, res, refs, want):
                if not r.startswith('ok ') or d.split(' | ')[0].strip() != 'ok ' + wnt:
                    viol.append(('property-fails-on-input', {'input': l[:2000], 'impl': r[:300], 'model': None,
                                                             'spec': 'reference decoder on the HEADERS payload written by the send site: %s (expected ok %s)' % (d[:200], wnt[:200])}))
                    break
        # 1e. the section prefixes the stateful encoder WROTE (q.hpe), read by the RFC integer decoder: the components of the case
        hpes = [(c, i) for c, i, m, s in ctx['rows'] if c.startswith('q.hpe') and i.startswith('ok ')]
        if hpes and ctx['model_exe'] and len(viol) < 3:
            res = run_cases(ctx['model_exe'], ['q.hpref ' + i.split()[1] for _, i in hpes])
            for (c, i), r in zip(hpes, res):
                want = 'ok ' + ','.join(c.split()[5:8])
                if r.strip() != want:
                    viol.append(('property-fails-on-input', {'input': c, 'impl': i, 'model': None,
                                                             'spec': 'RFC 9204 4.5.1 reading of the written prefix: %s (expected %s)' % (r[:200], want)}))
                    break
        # 2. known finding F15b propagated through string literals
        n = 0
        for c, i, m, s in ctx['rows']:
            if s is not None and c.startswith('q.blk'):
                mm = re.search(r'kf=(\d+)', s)
                if mm and self.kf is not None:
                    n += int(mm.group(1))
            elif s is not None and i.startswith('ok') and self.known_class_hit(c, i, s):
                n += 1
        if n and self.kf is not None:
            print('KNOWN-FINDING: property=C11 %s (%d inputs of the class in this run)' % (self.kf['what_fails'], n))
        return viol

    def nontrivial_key(self, case, impl_out):
        w = case.split()
        if w[0] == 'q.enc':
            return None if w[1] == '-' else case
        if w[0] == 'q.blk':
            return case
        if w[0] == 'q.hpe':
            return case if w[5] != '0' else None
        h = w[2].replace('.', '')
        if len(h) < 6 or h[:2] != '00' or int(h[2:4], 16) >= 0x7f:
            return None
        return case

    def shrink_candidates(self, case):
        w = case.split()
        if w[0] == 'q.blk':
            n = int(w[2])
            if n == 1:
                return ['q.dec - %s%02x' % (w[1], a) for a in range(256)]
            return ['q.blk %s%02x %d' % (w[1], a, n - 1) for a in range(256)]
        if w[0] == 'q.dec' and w[2] != '-' and len(w[2]) > 2:
            h = w[2]
            c = ['q.dec %s %s' % (w[1], h[:-2])]
            if len(h) > 6:
                c += ['q.dec %s %s' % (w[1], h[:4] + h[6:]), 'q.dec %s %s' % (w[1], h[:len(h) // 2 * 2 - 4] + h[-2:])]
            return c
        if w[0] == 'q.decc':
            return ['q.dec %s %s' % (w[1], w[2].replace('.', ''))]
        if w[0] == 'q.enc' and ',' in w[1]:
            fs = w[1].split(',')
            return ['q.enc ' + ','.join(fs[:k] + fs[k + 1:]) for k in range(len(fs))]
        return []


PROP = P()
