"""C15 - Huffman strings and prefixed integers: round trip and strict decoding."""
import json
import os
import re

from core import Property, spec_match, ROOT

U64 = 2 ** 64


def load_rfc_rows():
    """(length, code) rows of RFC 7541 Appendix B from the independent copy in spec-data (never h3's tables)."""
    txt = open(os.path.join(ROOT, 'spec-data', 'rfc7541_huffman__octets_crate.txt')).read()
    rows = [(int(a), int(b, 16)) for a, b in re.findall(r'\(\s*(\d+)\s*,\s*(0x[0-9a-f]+)\s*\)', txt)]
    assert len(rows) == 257
    return rows


ROWS = load_rfc_rows()
CODE = ['{:0{w}b}'.format(c, w=l) for l, c in ROWS]      # bit strings, index = symbol, 256 = EOS
BY_CODE = {c: i for i, c in enumerate(CODE[:256])}
MAXLEN = 30


def bits_of(bs):
    return ''.join('{:08b}'.format(b) for b in bs)


def bytes_of_bits(bits):
    assert len(bits) % 8 == 0
    return bytes(int(bits[i:i + 8], 2) for i in range(0, len(bits), 8))


def huff_encode(s):
    bits = ''.join(CODE[b] for b in s)
    bits += '1' * (-len(bits) % 8)
    return bytes_of_bits(bits)


def greedy_split(bits):
    """symbols (EOS excluded) stripped greedily from the front; returns (symbols, leftover bits)"""
    out, i, n = [], 0, len(bits)
    while True:
        hit = None
        for l in range(5, MAXLEN + 1):
            if i + l > n:
                break
            s = BY_CODE.get(bits[i:i + l])
            if s is not None:
                hit = (s, l)
                break
        if hit is None:
            return out, bits[i:]
        out.append(hit[0])
        i += hit[1]


LONG_ONES_MIN, LONG_ONES_MAX = 8, 37


def long_ones(payload):
    """the known-finding class F15b: valid symbols followed by 8..37 one bits -> (member?, symbols)"""
    syms, rest = greedy_split(bits_of(payload))
    ok = LONG_ONES_MIN <= len(rest) <= LONG_ONES_MAX and set(rest) <= {'1'}
    return ok, bytes(syms)


def hx(b):
    return bytes(b).hex() or '-'


def unhx(h):
    return b'' if h == '-' else bytes.fromhex(h)


def pi_encode(size, flags, v, extra_zero_groups=0):
    """RFC 7541 5.1 encoder; extra_zero_groups appends non-minimal 0x80 continuation groups"""
    mask = (1 << size) - 1
    top = (flags << size) & 0xff
    if v < mask and extra_zero_groups == 0:
        return bytes([top | v])
    out = [top | mask]
    r = v - mask
    if r < 0:
        return None
    groups = []
    while r >= 128:
        groups.append(r % 128)
        r //= 128
    groups.append(r)
    groups += [0] * extra_zero_groups
    for g in groups[:-1]:
        out.append(g | 128)
    out.append(groups[-1])
    return bytes(out)


def rb(rng, n):
    return bytes(rng.getrandbits(8) for _ in range(n))


def rand_string(rng, n):
    k = rng.random()
    if k < 0.4:
        return bytes(rng.choice(b'abcdefghijklmnopqrstuvwxyz0123456789-/.:= ') for _ in range(n))
    if k < 0.7:
        return rb(rng, n)
    return bytes(rng.choice([0, 1, 10, 13, 22, 38, 42, 48, 97, 127, 128, 195, 208, 249, 254, 255]) for _ in range(n))


class P(Property):
    id = 'C15'
    gen_modules = ['gen_prefixint', 'gen_huffman', 'gen_huffman_enc', 'gen_prefixstring', 'gen_bitwin', 'gen_huffiter']
    properties_v = 'Properties/C15.v'
    model_targets = ['Model/PrefixString.vo', 'Model/ChunkedQpack.vo', 'Spec/PrefixInt.vo', 'Spec/RFC7541Huffman.vo', 'Spec/HuffmanKnown.vo']
    extract_v = 'Extract/ExtractC15.v'
    driver_ml = 'C15_driver.ml'
    harness_bin = 'c15'
    rule = ('he: all strings of length 0..2, seeded random strings up to 64 octets; hd: all payloads of 0..2 octets (quick) and '
            'of 3 octets (thorough, hd.blk = digest over 256 payloads per line, spec digest computed from the RFC reference decoder), '
            'valid encodings with every padding length 0..15 and every padding bit pattern, valid literals ending in each of the 256 '
            'octets (code lengths 5..30) at each of the 8 bit offsets (short and longer than 8 octets), valid symbols followed by 0..48 one '
            'bits, seeded random payloads; pi.dec: prefix sizes 1..8 x boundary values (prefix boundary, powers of two, 2^63-1+mask '
            '+-1, 2^64-1) at every truncation, with trailing octets, non-minimal forms up to 11 continuation octets, all 1- and '
            '2-octet inputs, random continuation patterns; pi.enc: sizes x flags x the same values; ps.dec/ps.enc: sizes 2..8 x '
            'raw and Huffman payloads incl. mutated and truncated ones; pi.decc/ps.decc: the same decode inputs as NON-contiguous '
            'Buf (h3v::ChunkBuf) cut at every position with 1 and 2 cuts (inputs up to 20 octets), EVERY one of the 2^(n-1) chunkings of '
            'inputs of up to 9 octets, one-octet chunks, and LONG inputs: literals of 21..1500 octets (raw) / 21..600 (Huffman; valid, '
            'bit-flipped, padded with ff, truncated, with trailing octets) for every size 2..8, cut at 1..8 seeded points plus cuts '
            'inside the continuation octets of the length, at the length/payload border and inside the payload; integers with up to 12 '
            'continuation octets and trailing octets (> 20 octets in all).  For pi.decc/ps.decc the MODEL column runs '
            'Model/ChunkedQpack.v (the decoders over the bytes-crate provided methods) on the same chunk list and both sides print '
            'the chunks of the buffer left behind; ps.dec/ps.decc with declared lengths L + k*2^w '
            '(w in 8,16,32,63,64) over L octets present; he.big/hd.big/ps.rt: seeded strings of 2^8..2^22 octets (+-1) built in '
            'both drivers, results compared as digests (model = extracted model up to 1024 octets, proved-equal native '
            'table-driven code above). non-trivial = distinct cases that get past the first '
            'decision (non-empty input; for pi.dec a full prefix, i.e. the continuation loop is entered; for hd/ps.dec at least one '
            'complete symbol or a padding check is reached)')
    trusted_extra = [
        'coq/Spec/RFC7541Huffman.v: the 257 (code,length) rows transcribed from two independent agreeing copies of RFC 7541 Appendix B (spec-data/)',
        'lib/props/c15.py greedy Huffman splitter over spec-data (used only to build cases and to recognise the known-finding class F15b)',
        'BitWindow u32 fields modelled unbounded (inputs below 2^29 octets); harness built with debug assertions and overflow checks',
    ]

    def __init__(self):
        self.kf = None
        for fn in ('known_findings.json', 'known_findings_C15.json'):
            p = os.path.join(ROOT, fn)
            if os.path.exists(p):
                try:
                    data = json.load(open(p))
                except Exception:
                    continue
                for e in data.get('open', []):
                    if e.get('property') == 'C15' and e.get('match', {}).get('class') == 'LongOnes':
                        self.kf = e
                        break
            if self.kf:
                break

    # ------------------------------------------------------------------ cases
    def cases(self, tier, rng):
        out = self.cases0(tier, rng)
        # the decoders are generic over `B: Buf`: the same bytes as NON-contiguous buffers, cut at every
        # position (1 and 2 cuts); the model sees the concatenation.
        quick = tier == 'quick'
        src = [c for c in out if c.startswith(('pi.dec ', 'ps.dec ')) and 4 <= len(c.split()[2]) <= 40]
        seen = set()
        pick = []
        for c in src:
            if c not in seen:
                seen.add(c)
                pick.append(c)
        # every boundary-value / long-run case plus a seeded sample of the rest
        budget = 1200 if quick else 20000
        ps_pick = [c for c in pick if c.startswith('ps.dec')]
        pi_pick = [c for c in pick if c.startswith('pi.dec')]
        if len(ps_pick) > budget // 2:
            ps_pick = rng.sample(ps_pick, budget // 2)
        if len(pi_pick) > budget:
            head = [c for c in pi_pick if len(c.split()[2]) >= 8][:budget // 2]
            pi_pick = head + rng.sample(pi_pick, budget - len(head))
        pick = pi_pick + ps_pick
        for c in pick:
            fam, size, h = c.split()
            b = [h[i:i + 2] for i in range(0, len(h), 2)]
            n = len(b)
            for i in range(1, n):
                out.append('%sc %s %s.%s' % (fam, size, ''.join(b[:i]), ''.join(b[i:])))
            if n <= 14:
                for i in range(1, n):
                    for j in range(i + 1, n):
                        out.append('%sc %s %s.%s.%s' % (fam, size, ''.join(b[:i]), ''.join(b[i:j]), ''.join(b[j:])))
        out += self.cases_long_chunked(tier, rng, pick)
        return out

    def cases_long_chunked(self, tier, rng, short):
        """chunked inputs beyond 20 octets, every chunking of short ones, one-octet chunks"""
        quick = tier == 'quick'
        out = []

        def cut(e, cuts):
            cuts = sorted(c for c in set(cuts) if 0 < c < len(e))
            return '.'.join(e[a:b_].hex() for a, b_ in zip([0] + cuts, cuts + [len(e)])) or '-'

        def all_chunkings(bs):
            n = len(bs)
            for m in range(1 << (n - 1)):
                yield cut(bs, [i for i in range(1, n) if m >> (i - 1) & 1])

        out.append('pi.decc 5 -')
        out.append('ps.decc 6 -')
        # every chunking of short inputs; the same inputs as one-octet chunks
        sm = [c for c in short if 4 <= len(c.split()[2]) <= 18]
        for c in rng.sample(sm, min(len(sm), 40 if quick else 2000)):
            fam, size, h = c.split()
            for ch in all_chunkings(bytes.fromhex(h)):
                out.append('%sc %s %s' % (fam, size, ch))
        for c in short[:: 3 if quick else 1]:
            fam, size, h = c.split()
            out.append('%sc %s %s' % (fam, size, '.'.join(h[i:i + 2] for i in range(0, len(h), 2))))
        # long string literals
        for size in range(2, 9):
            n = size - 1
            for it in range(90 if quick else 9000):
                huff = it % 3 != 0
                ln = rng.choice([21, 30, 31, 32, 62, 63, 64, 126, 127, 128, 129, 140, 254, 255, 256, 300, rng.randint(21, 600)])
                if not huff and it % 9 == 0:
                    ln = rng.choice([1000, 1200, 1500, rng.randint(600, 1500)])
                st = rand_string(rng, ln)
                payload = bytearray(huff_encode(st) if huff else st)
                k = rng.random()
                if k < 0.12 and payload:
                    i = rng.randrange(len(payload) * 8)
                    payload[i // 8] ^= 0x80 >> (i % 8)
                elif k < 0.2:
                    payload += bytes([0xff] * rng.randint(1, 5))
                elif k < 0.25 and payload:
                    payload[-1] &= 0xfe
                f = rng.getrandbits(8 - size) if size < 8 else 0
                fl = (f << 1 | (1 if huff else 0)) & ((1 << (8 - n)) - 1)
                hdr = (pi_encode(n, fl, len(payload), 1) if it % 11 == 0 else None) or pi_encode(n, fl, len(payload))
                e = bytes(hdr) + bytes(payload)
                k = rng.random()
                if k < 0.15:
                    e = e[:rng.randrange(len(hdr), len(e))]            # truncated inside the payload
                elif k < 0.6:
                    e += rb(rng, rng.randint(1, 40))                   # trailing octets stay in the buffer
                cuts = [rng.randint(1, len(e) - 1) for _ in range(rng.randint(1, 8))]
                m = it % 4
                if m == 0 and len(hdr) > 1:
                    cuts.append(rng.randint(1, len(hdr) - 1))           # inside the continuation octets of the length
                elif m == 1:
                    cuts.append(len(hdr))                              # between length and payload
                elif m == 2:
                    cuts += [len(hdr) + 1, len(hdr) + len(payload) - 1, len(hdr) + len(payload)]
                else:
                    cuts += list(range(1, len(hdr) + 2))                # every octet of the length alone
                out.append('ps.decc %d %s' % (size, cut(e, cuts)))
        # integers with long continuation runs and trailing octets (more than 20 octets in all)
        for size in range(1, 9):
            mask = (1 << size) - 1
            for it in range(40 if quick else 4000):
                k = rng.choice([0, 1, 2, 5, 8, 9, 10, 12])
                body = bytes((rng.getrandbits(8) | 0x80) for _ in range(k)) + bytes([rng.getrandbits(7)])
                if it % 7 == 0:
                    v = rng.getrandbits(rng.choice([14, 30, 62, 63, 64]))
                    body = pi_encode(size, 0, max(v, mask))[1:]
                e = bytes([((rng.getrandbits(8) << size) & 0xff) | mask]) + body + rb(rng, rng.randint(10, 30))
                if it % 10 == 0:
                    e = e[:rng.randint(1, len(body))]                  # truncated inside the run
                cuts = [rng.randint(1, max(1, len(e) - 1)) for _ in range(rng.randint(1, 6))] + [rng.randint(1, len(body) + 1)]
                out.append('pi.decc %d %s' % (size, cut(e, cuts)))
        return out

    def cases0(self, tier, rng):
        out = []
        quick = tier == 'quick'
        # --- Huffman encode
        out.append('he -')
        for a in range(256):
            out.append('he %02x' % a)
        for a in range(65536):
            out.append('he %04x' % a)
        for _ in range(2000 if quick else 200000):
            out.append('he ' + hx(rand_string(rng, rng.randint(3, 64))))
        out.append('he ' + hx(bytes(range(256))))
        # all 3-symbol strings over an alphabet with every code length 5..30 (window bit != 0, bit + count > 8 states of put)
        alpha = {}
        for x in range(256):
            alpha.setdefault(len(CODE[x]), x)
        alpha = sorted(alpha.values()) + [0, 255, 97]
        for a in alpha:
            for b in alpha:
                for c in alpha:
                    out.append('he %02x%02x%02x' % (a, b, c))
        # --- Huffman decode: exhaustive short payloads
        out.append('hd -')
        for a in range(256):
            out.append('hd %02x' % a)
        for a in range(65536):
            out.append('hd %04x' % a)
        if not quick:
            for a in range(65536):
                out.append('hd.blk %04x 1' % a)
        # --- valid encodings, every padding length 0..15, every padding pattern
        nsets = 2 if quick else 24
        for k in range(nsets):
            done = set()
            tries = 0
            while len(done) < 8 and tries < 4000:
                tries += 1
                s = rand_string(rng, rng.randint(0, 3) if k == 0 else rng.randint(0, 12))
                bits = ''.join(CODE[b] for b in s)
                r = -len(bits) % 8
                if r in done:
                    continue
                done.add(r)
                for padlen in (r, r + 8):
                    for pat in range(1 << padlen):
                        pad = '{:0{w}b}'.format(pat, w=padlen) if padlen else ''
                        out.append('hd ' + hx(bytes_of_bits(bits + pad)))
        # --- valid literals: every final symbol (code lengths 5..30) at every bit offset, i.e. all 8 padding lengths
        pre = {}
        for cand in (b'', b'0', b' ', b'00', b'0 ', b'  ', b'000', b'&', b'00 ', b'0  ', b'X', b'0&', b'   0', b'!'):
            r = sum(len(CODE[c]) for c in cand) % 8
            pre.setdefault(r, cand)
        assert len(pre) == 8, pre
        for r in range(8):
            for x in range(256):
                out.append('hd ' + hx(huff_encode(pre[r] + bytes([x]))))
                # the same at the end of a literal of more than 8 octets
                out.append('hd ' + hx(huff_encode(b'content-type' + pre[r] + bytes([x]))))
        # --- valid symbols followed by k ones (class boundary 37/38), EOS inside
        for _ in range(6 if quick else 200):
            s = rand_string(rng, rng.randint(0, 5))
            bits = ''.join(CODE[b] for b in s)
            for k in range(0, 49):
                if (len(bits) + k) % 8 == 0:
                    out.append('hd ' + hx(bytes_of_bits(bits + '1' * k)))
            t = rand_string(rng, rng.randint(0, 3))
            b2 = bits + CODE[256] + ''.join(CODE[b] for b in t)
            b2 += '1' * (-len(b2) % 8)
            out.append('hd ' + hx(bytes_of_bits(b2)))
        # --- single bit flips / truncations / extensions of valid encodings, random payloads
        for _ in range(1500 if quick else 150000):
            e = bytearray(huff_encode(rand_string(rng, rng.randint(1, 24))))
            k = rng.random()
            if k < 0.4 and e:
                i = rng.randrange(len(e) * 8)
                e[i // 8] ^= 0x80 >> (i % 8)
            elif k < 0.6 and e:
                e = e[:rng.randrange(len(e))]
            elif k < 0.8:
                e += rb(rng, rng.randint(1, 5))
            out.append('hd ' + hx(e))
        for _ in range(3000 if quick else 300000):
            out.append('hd ' + hx(rb(rng, rng.randint(3, 12))))
        # --- prefixed integers
        for size in range(1, 9):
            mask = (1 << size) - 1
            vals = {0, 1, mask - 1, mask, mask + 1, mask + 126, mask + 127, mask + 128, mask + 129, 2 ** 63 - 1 + mask - 1,
                    2 ** 63 - 1 + mask, 2 ** 63 + mask, 2 ** 63 + mask + 1, U64 - 1, U64 - 2, 2 ** 62, 2 ** 62 - 1}
            for p in range(0, 64):
                for d in (-1, 0, 1):
                    vals.add(2 ** p + d)
                    vals.add(2 ** p + mask + d)
            for _ in range(300 if quick else 5000):
                vals.add(rng.getrandbits(rng.choice([7, 14, 21, 30, 45, 62, 63, 64, 64])))
            vals = sorted(v for v in vals if 0 <= v < U64)
            fl = sorted({0, (1 << (8 - size)) - 1, rng.getrandbits(8 - size) if size < 8 else 0})
            for v in vals:
                for f in fl:
                    out.append('pi.enc %d %d %d' % (size, f, v))
                f = fl[-1]
                for extra in (0, 1, 2):
                    e = pi_encode(size, f, v, extra)
                    if e is None or len(e) > 13:
                        continue
                    for t in range(0, len(e) + 1):
                        out.append('pi.dec %d %s' % (size, hx(e[:t])))
                    out.append('pi.dec %d %s' % (size, hx(e + rb(rng, rng.randint(1, 3)))))
            # values beyond u64 (still RFC-valid encodings) and long continuation runs
            for v in (U64, U64 + mask, 2 ** 70, 2 ** 63 + mask + 2 ** 64):
                e = pi_encode(size, 0, v)
                out.append('pi.dec %d %s' % (size, hx(e)))
            for k in range(0, 13):
                for fill in (0x80, 0xff, 0x81):
                    for last in (None, 0x00, 0x01, 0x7f):
                        e = bytes([mask]) + bytes([fill] * k) + (bytes([last]) if last is not None else b'')
                        out.append('pi.dec %d %s' % (size, hx(e)))
            for _ in range(300 if quick else 30000):
                k = rng.randint(0, 11)
                body = bytes((rng.getrandbits(8) | 0x80) if rng.random() < 0.9 else rng.getrandbits(7) for _ in range(k))
                e = bytes([((rng.getrandbits(8) << size) & 0xff) | mask]) + body + bytes([rng.getrandbits(7)] if rng.random() < 0.8 else [])
                out.append('pi.dec %d %s' % (size, hx(e)))
            out.append('pi.dec %d -' % size)
            for a in range(256):
                out.append('pi.dec %d %02x' % (size, a))
            if True:
                for a in range(65536):
                    out.append('pi.dec %d %04x' % (size, a))
        # --- string literals
        for size in range(2, 9):
            n = size - 1
            for _ in range(150 if quick else 15000):
                s = rand_string(rng, rng.choice([0, 1, 2, 3, 5, 17, 30, 31, 32, 62, 63, 64, 126, 127, 128, 140, rng.randint(0, 300)]))
                f = rng.getrandbits(8 - size) if size < 8 else 0
                out.append('ps.enc %d %d %s' % (size, f, hx(s)))
                huff = rng.random() < 0.7
                payload = huff_encode(s) if huff else s
                k = rng.random()
                payload = bytearray(payload)
                if k < 0.15 and payload:
                    i = rng.randrange(len(payload) * 8)
                    payload[i // 8] ^= 0x80 >> (i % 8)
                elif k < 0.25:
                    payload += bytes([0xff] * rng.randint(1, 5))
                elif k < 0.3 and payload:
                    payload[-1] &= 0xfe
                hdr = pi_encode(n, (f << 1 | (1 if huff else 0)) & ((1 << (8 - n)) - 1), len(payload))
                e = bytes(hdr) + bytes(payload)
                k = rng.random()
                if k < 0.15:
                    e = e[:rng.randrange(len(e))] if e else e
                elif k < 0.6:
                    e += rb(rng, rng.randint(1, 4))
                out.append('ps.dec %d %s' % (size, hx(e)))
            for _ in range(200 if quick else 20000):
                out.append('ps.dec %d %s' % (size, hx(rb(rng, rng.randint(0, 8)))))
            out.append('ps.enc %d 0 -' % size)
            # declared lengths that would only fit after wrapping / truncation: L + k * 2^w with L octets present
            for w in (8, 16, 32, 63, 64):
                for k in (1, 2, 255):
                    for L in (0, 1, 3, 9):
                        v = L + k * 2 ** w
                        for huff in (0, 1):
                            payload = (huff_encode(b'abcdefghi'[:L]) if huff else b'abcdefghi'[:L])
                            if huff:
                                v = len(payload) + k * 2 ** w
                            f = rng.getrandbits(8 - size) if size < 8 else 0
                            hdr = pi_encode(n, ((f << 1) | huff) & ((1 << (8 - n)) - 1), v)
                            out.append('ps.dec %d %s' % (size, hx(hdr + payload)))
                            out.append('ps.dec %d %s' % (size, hx(hdr + payload + b'zz')))
            # long-ones payloads inside a string literal
            for pl in (b'\xff', b'\xff\xff', b'\xff\xff\xff\xff', b'\xf8\xff', b'\xff' * 5, b'\x1f\xff\xff'):
                out.append('ps.dec %d %s' % (size, hx(pi_encode(n, 1, len(pl)) + pl + b'zz')))
        # --- large seeded strings (built inside both drivers from the seed; results are digests)
        for ln in (255, 1000, 1024, 2 ** 13, 2 ** 16 - 1, 2 ** 16, 2 ** 16 + 1, 2 ** 17):
            for seed in (0, 1):
                out.append('he.big %d %d' % (ln, seed))
                out.append('hd.big %d %d' % (ln, seed))
        if not quick:
            for ln in (2 ** 20, 2 ** 22 + 1):
                out.append('he.big %d 2' % ln)
                out.append('hd.big %d 3' % ln)
        i = 0
        for k in range(8, 23):
            for d in (-1, 0, 1):
                size = 2 + i % 7
                fl = 0 if i % 3 == 0 else ((1 << (8 - size)) - 1 if i % 3 == 1 else (i * 7) % (1 << (8 - size)))
                out.append('ps.rt %d %d %d %d' % (size, 2 ** k + d, i, fl))
                i += 1
        for size in range(2, 9):
            for ln in (0, 1, 126, 127, 128, 1023):
                out.append('ps.rt %d %d %d %d' % (size, ln, 100 + size, (ln * 5 + 1) % (1 << (8 - size))))
        return out

    # ------------------------------------------------------------------ comparison
    def canon(self, case, out):
        w = out.split()
        if w and w[0] == 'panic':
            return 'panic'
        return out

    @staticmethod
    def flat_rest(case, out):
        """pi.decc / ps.decc print the CHUNKS of the buffer left behind (compared implementation-vs-model); the
        specification oracle knows the flat rest only"""
        if case.split()[0] in ('pi.decc', 'ps.decc'):
            w = out.split()
            if w and w[0] == 'ok' and '.' in w[-1]:
                w[-1] = w[-1].replace('.', '')
                return ' '.join(w)
        return out

    def known_class_hit(self, case, out, spec):
        """is (case, lax result `out`) an instance of the open known finding F15b?"""
        if self.kf is None or spec is None:
            return False
        out = self.flat_rest(case, out)
        w = case.split()
        sw = spec.split()
        if w[0] == 'hd' and sw[:1] == ['err']:
            member, syms = long_ones(unhx(w[1]))
            return member and out == 'ok ' + hx(syms)
        if w[0] in ('ps.dec', 'ps.decc') and sw[:2] == ['err', 'huffman'] and len(sw) == 4:
            member, syms = long_ones(unhx(sw[2]))
            return member and out == 'ok %s %s' % (hx(syms), sw[3])
        return False

    def spec_ok(self, case, out, spec):
        if spec is None:
            return True
        out = self.flat_rest(case, self.canon(case, out))
        fam = case.split()[0]
        if fam == 'hd.blk':
            a, b = out.split(), spec.split()
            return len(a) == 4 and len(b) == 5 and a[0] == b[0] and a[1] == b[1] and a[3] == b[3]
        # the property says "rejects": where the spec says error, ANY error kind of the implementation
        # satisfies it (kinds are still compared between implementation and model)
        if spec.startswith('err'):
            if out.startswith('err'):
                return True
            if fam in ('hd', 'ps.dec', 'ps.decc'):
                return self.known_class_hit(case, out, spec)
            return False
        if fam == 'hd':
            return out == spec
        return spec_match(out, spec)

    def extra_checks(self, ctx):
        n = 0
        for c, i, m, s in ctx['rows']:
            if s is None:
                continue
            if c.startswith('hd.blk'):
                mm = re.search(r'kf=(\d+)', s)
                if mm and self.kf is not None:
                    n += int(mm.group(1))
            elif (c.startswith('hd ') or c.startswith('ps.dec')) and i.startswith('ok') and s.startswith('err') \
                    and self.known_class_hit(c, i, s):
                n += 1
        if n and self.kf is not None:
            print('KNOWN-FINDING: property=C15 %s (%d inputs of the class in this run)' % (self.kf['what_fails'], n))
        return []

    def nontrivial_key(self, case, impl_out):
        w = case.split()
        if w[0] in ('hd', 'he'):
            return None if w[1] == '-' else case
        if w[0] in ('pi.dec', 'pi.decc'):
            w = [w[0], w[1], w[2].replace('.', '')]
            if w[2] == '-':
                return None
            size = int(w[1])
            b0 = int(w[2][:2], 16)
            mask = (1 << size) - 1
            return case if (b0 & mask) == mask else None
        if w[0] == 'pi.enc':
            return case if int(w[3]) >= (1 << int(w[1])) - 1 else None
        if w[0] in ('ps.dec', 'ps.decc'):
            return None if impl_out in ('err end',) else case
        return case

    def shrink_candidates(self, case):
        w = case.split()
        if w[0] == 'hd.blk':
            p = '' if w[1] == '-' else w[1]
            n = int(w[2])
            if n == 1:
                return ['hd %s%02x' % (p, a) for a in range(256)]
            return ['hd.blk %s%02x %d' % (p, a, n - 1) for a in range(256)]
        if w[0] == 'hd' and w[1] != '-':
            h = w[1]
            c = []
            if len(h) > 2:
                c += ['hd ' + h[2:], 'hd ' + h[:-2]]
            return c
        if w[0] == 'pi.dec' and w[2] != '-' and len(w[2]) > 2:
            return ['pi.dec %s %s' % (w[1], w[2][:-2])]
        if w[0] == 'ps.dec' and w[2] != '-' and len(w[2]) > 2:
            return ['ps.dec %s %s' % (w[1], w[2][:-2])]
        return []


PROP = P()
