"""C06: no peer behaviour makes h3 panic or leaves a call pending forever (adversarial search + inventory tie)."""
import json
import os
import re

from core import Property, ROOT, REPO
from props.c16 import enc

# ---------------------------------------------------------------- wire helpers


def vi(x):
    """minimal QUIC varint"""
    for l, b in ((1, 6), (2, 14), (4, 30), (8, 62)):
        if x < 2 ** b:
            return enc(x, l)
    raise ValueError(x)


def frame(ty, payload, length=None, lform=None):
    L = len(payload) if length is None else length
    lb = vi(L) if lform is None else enc(L, lform)
    return vi(ty) + lb + payload


def pint(prefix_bits, flags, value):
    """RFC 7541 prefixed integer; flags are the bits above the prefix"""
    mx = (1 << prefix_bits) - 1
    if value < mx:
        return bytes([(flags << prefix_bits) & 0xff | value])
    out = [((flags << prefix_bits) & 0xff) | mx]
    value -= mx
    while value >= 128:
        out.append(value % 128 + 128)
        value //= 128
    out.append(value)
    return bytes(out)


def qstr(prefix_bits, flags, s):
    """string literal without Huffman: H bit (0) is the top bit of the prefix"""
    return pint(prefix_bits - 1, flags << 1, len(s)) + s


_HUFF = None


def huff_table():
    """(length, code) per symbol 0..256 from the committed copy of the RFC 7541 table (octets crate excerpt)"""
    global _HUFF
    if _HUFF is None:
        txt = open(os.path.join(ROOT, 'spec-data', 'rfc7541_huffman__octets_crate.txt')).read()
        _HUFF = [(int(a), int(b, 16)) for a, b in re.findall(r'\(\s*(\d+)\s*,\s*(0x[0-9a-fA-F]+)\s*\)', txt)]
        assert len(_HUFF) == 257
    return _HUFF


def huff(sb, pad_ones=True, extra_pad_bytes=0):
    """RFC 7541 Huffman coding of the byte string sb, padded with the most significant bits of EOS (ones)"""
    t = huff_table()
    acc, n = 0, 0
    for c in sb:
        l, code = t[c]
        acc = (acc << l) | code
        n += l
    pad = (-n) % 8
    acc = (acc << pad) | (((1 << pad) - 1) if pad_ones else 0)
    n += pad
    return acc.to_bytes(n // 8, 'big') + b'\xff' * extra_pad_bytes


def qstr_h(prefix_bits, flags, s, **kw):
    """Huffman coded string literal (H = 1)"""
    e = huff(s, **kw)
    return pint(prefix_bits - 1, (flags << 1) | 1, len(e)) + e


def lit_h(name, val, hname=True, hval=True, **kw):
    return (qstr_h(4, 0b0010, name) if hname else qstr(4, 0b0010, name)) + (qstr_h(8, 0, val, **kw) if hval else qstr(8, 0, val))


def lit_ref_h(i, val, **kw):
    return pint(4, 0b0101, i) + qstr_h(8, 0, val, **kw)


def idx(i):
    return pint(6, 0b11, i)


def lit_ref(i, val):
    return pint(4, 0b0101, i) + qstr(8, 0, val)


def lit(name, val):
    return qstr(4, 0b0010, name) + qstr(8, 0, val)


def block(lines):
    return b'\x00\x00' + b''.join(lines)


REQ_GET = block([idx(17), idx(23), lit_ref(0, b'a'), idx(1)])
REQ_POST = block([idx(20), idx(23), lit_ref(0, b'a'), idx(1), lit(b'x-k', b'v'), idx(31)])
REQ_CONNECT = block([idx(15), lit_ref(0, b'a:1')])
RESP_200 = block([idx(25), lit(b'x-r', b'1')])
RESP_103 = block([idx(24)])
TRAILERS = block([lit(b'x-t', b'1')])
# the same messages with Huffman coded literals (what every browser sends); RFC 7541 C.4.1 authority
REQ_GET_H = block([idx(17), idx(23), lit_ref_h(0, b'www.example.com'), idx(1), lit_h(b'user-agent', b'Mozilla/5.0 (X11; Linux x86_64) h3-verif/1'),
                   lit_h(b'x-long-codes', b'{}|~^`<>"\\')])
RESP_200_H = block([idx(25), lit_h(b'server', b'h3-verif'), lit_ref_h(44, b'text/html; charset=utf-8')])
TRAILERS_H = block([lit_h(b'x-checksum', b'0123456789abcdef')])
H_HEADERS, H_DATA, H_SETTINGS, H_GOAWAY, H_MAXPUSH, H_CANCEL, H_PUSHPROMISE = 1, 0, 4, 7, 0xd, 3, 5
SETTINGS_EMPTY = frame(H_SETTINGS, b'')
SETTINGS_SOME = frame(H_SETTINGS, vi(6) + vi(4096) + vi(1) + vi(0) + vi(7) + vi(0) + vi(0x33) + vi(1) + vi(0x21 + 0x1f * 3) + vi(7))
GREASE_FRAME = frame(0x21 + 0x1f * 5, b'grease')


class Sc:
    """a scenario: ordered ops ('U'|'B', id) | ('d', id, [frames or raw bytes]) | ('F', id)"""

    def __init__(self, role, opts, ops, name):
        self.role, self.opts, self.ops, self.name = role, opts, ops, name

    def streams(self):
        ids = []
        for op in self.ops:
            if op[1] not in ids:
                ids.append(op[1])
        return ids


def d(sid, *parts):
    return ('d', sid, list(parts))


def base_scenarios():
    S = []
    ctl = lambda *more: [('U', 2), d(2, b'\x00', SETTINGS_EMPTY, *more)]
    # ---- server role (peer = client: control 2, qpack 6 / 10, requests 0, 4, 8)
    S.append(Sc('srv', 'pa', ctl() + [('B', 0), d(0, frame(H_HEADERS, REQ_GET)), ('F', 0)], 'get'))
    S.append(Sc('srv', 'pa', ctl() + [('B', 0), d(0, frame(H_HEADERS, REQ_POST), frame(H_DATA, b'hello'), frame(H_DATA, b'abc'),
                                                    frame(H_HEADERS, TRAILERS)), ('F', 0)], 'post-trailers'))
    S.append(Sc('srv', 'pb', ctl() + [('B', 0), d(0, frame(H_HEADERS, REQ_POST), frame(H_DATA, b'hello')), ('F', 0)], 'post-pb'))
    S.append(Sc('srv', 'pa', [('U', 2), d(2, b'\x00', SETTINGS_SOME, GREASE_FRAME, frame(H_MAXPUSH, vi(5)))]
                + [('U', 6), d(6, b'\x02', b'\x3f\x01'), ('U', 10), d(10, b'\x03', b'\x80'), ('U', 14), d(14, vi(0x21 + 0x1f * 2), b'\xaa\xbb\xcc')]
                + [('B', 0), d(0, frame(H_HEADERS, REQ_GET), GREASE_FRAME), ('B', 4), d(4, frame(H_HEADERS, REQ_POST)), ('F', 0),
                   d(4, frame(H_DATA, b'0123456789'), GREASE_FRAME, frame(H_HEADERS, TRAILERS)), ('F', 4), d(2, frame(H_GOAWAY, vi(0)))], 'full'))
    S.append(Sc('srv', 'pa', [('B', 0), d(0, frame(H_HEADERS, REQ_GET)), ('F', 0)] + ctl(), 'request-before-control'))
    S.append(Sc('srv', 'pa', ctl() + [('F', 2)], 'control-fin'))
    S.append(Sc('srv', 'pa', ctl() + [('B', 0), d(0, frame(H_HEADERS, REQ_POST), frame(H_DATA, bytes(range(256)) * 3))], 'open-ended'))
    S.append(Sc('srv', 'pa+m200', ctl() + [('B', 0), d(0, frame(H_HEADERS, REQ_POST)), ('F', 0)], 'limit'))
    S.append(Sc('srv', 'pa+w', ctl(frame(H_MAXPUSH, vi(1))) + [('B', 0), d(0, frame(H_HEADERS, REQ_CONNECT)), d(0, frame(H_DATA, b'xy')), ('F', 0)], 'connect'))
    S.append(Sc('srv', 'pa+g', ctl() + [('U', 6), d(6, b'\x01', vi(0))] + [('B', 0), d(0, frame(H_HEADERS, REQ_GET)), ('F', 0)], 'push-stream-from-client'))
    S.append(Sc('srv', 'pa', ctl() + [('B', 0), ('B', 4), ('B', 8), d(8, frame(H_HEADERS, REQ_GET)), ('F', 8), d(0, frame(H_HEADERS, REQ_GET)),
                                        ('F', 0), d(4, frame(H_HEADERS, REQ_GET)), ('F', 4)], 'three'))
    S.append(Sc('srv', 'pa', [('U', 18), d(18, b'\x00', SETTINGS_SOME), ('U', 22), d(22, b'\x02'), ('U', 4002), d(4002, b'\x03'), ('B', 16), ('B', 400),
                              d(400, frame(H_HEADERS, REQ_GET)), d(16, frame(H_HEADERS, REQ_POST), frame(H_DATA, b'abc')), ('F', 400), ('F', 16)], 'high-ids'))
    S.append(Sc('srv', 'pa', ctl() + [('B', 0), d(0, frame(H_HEADERS, REQ_GET_H), frame(H_DATA, b'abc'), frame(H_HEADERS, TRAILERS_H)), ('F', 0)], 'huffman'))
    # ---- client role (peer = server: control 3, qpack 7 / 11, push 15, responses on 0, 4)
    cctl = lambda *more: [('U', 3), d(3, b'\x00', SETTINGS_EMPTY, *more)]
    S.append(Sc('cli', 'pa', cctl() + [d(0, frame(H_HEADERS, RESP_200)), ('F', 0)], 'resp'))
    S.append(Sc('cli', 'pa+b', cctl() + [d(0, frame(H_HEADERS, RESP_103), frame(H_HEADERS, RESP_200), frame(H_DATA, b'hello'), frame(H_DATA, b'abc'),
                                           frame(H_HEADERS, TRAILERS)), ('F', 0)], 'resp-103-body-trailers'))
    S.append(Sc('cli', 'pb', cctl() + [d(0, frame(H_HEADERS, RESP_200), frame(H_DATA, b'hello')), ('F', 0)], 'resp-pb'))
    S.append(Sc('cli', 'pa+n2', [('U', 3), d(3, b'\x00', SETTINGS_SOME, GREASE_FRAME), ('U', 7), d(7, b'\x02', b'\x3f\x01'), ('U', 11), d(11, b'\x03', b'\x80'),
                                  ('U', 15), d(15, vi(0x21 + 0x1f * 4), b'\x01\x02')]
                + [d(4, frame(H_HEADERS, RESP_200)), d(0, frame(H_HEADERS, RESP_200), GREASE_FRAME, frame(H_DATA, b'0123456789')), ('F', 4),
                   d(0, frame(H_HEADERS, TRAILERS)), ('F', 0), d(3, frame(H_GOAWAY, vi(8)))], 'full'))
    S.append(Sc('cli', 'pa', cctl() + [('U', 7), d(7, b'\x01', vi(0), frame(H_HEADERS, RESP_200)), d(0, frame(H_PUSHPROMISE, vi(0) + REQ_GET),
                                                                                                      frame(H_HEADERS, RESP_200)), ('F', 0)], 'push'))
    S.append(Sc('cli', 'pa', cctl() + [('F', 3)], 'control-fin'))
    S.append(Sc('cli', 'pa', [d(0, frame(H_HEADERS, RESP_200)), ('F', 0)] + cctl(), 'response-before-control'))
    S.append(Sc('cli', 'pa+m100', cctl() + [d(0, frame(H_HEADERS, RESP_200), frame(H_DATA, bytes(range(256)) * 3))], 'open-ended'))
    S.append(Sc('cli', 'pa+g', cctl(frame(H_CANCEL, vi(0))) + [d(0, frame(H_HEADERS, RESP_200)), ('F', 0)], 'cancel-push'))
    S.append(Sc('cli', 'pa', cctl() + [('B', 1), d(1, frame(H_HEADERS, REQ_GET)), d(0, frame(H_HEADERS, RESP_200)), ('F', 1), ('F', 0)], 'server-bidi'))
    S.append(Sc('cli', 'pa', cctl() + [d(0, frame(H_HEADERS, RESP_200_H), frame(H_DATA, b'abc'), frame(H_HEADERS, TRAILERS_H)), ('F', 0)], 'huffman'))
    return S


# ---------------------------------------------------------------- rendering a scenario into events

def chunks_of(b, mode, rng):
    if not b:
        return []
    if mode == 'one':
        return [b]
    if mode == 'byte':
        return [b[i:i + 1] for i in range(len(b))]
    out = []
    while b:
        c = rng.randint(1, max(1, min(len(b), rng.choice([1, 2, 3, 8, 64, 4096]))))
        out.append(b[:c])
        b = b[c:]
    return out


def events_of(sc, mode, rng, perframe=True):
    """list of (event string, stream id)"""
    evs = []
    for op in sc.ops:
        if op[0] in ('U', 'B'):
            evs.append(('%s%d' % (op[0], op[1]), op[1]))
        elif op[0] == 'F':
            evs.append(('%d:F' % op[1], op[1]))
        else:
            parts = op[2]
            if mode == 'one' and perframe:
                pieces = [p for p in parts if p]
            elif mode == 'one':
                pieces = [b''.join(parts)]
            else:
                pieces = chunks_of(b''.join(parts), mode, rng)
            for p in pieces:
                if p:
                    evs.append(('%d:c:%s' % (op[1], p.hex()), op[1]))
    return evs


def line(role, opts, evs, sched, rng=None, tag=None):
    es = [e for e, _ in evs] if evs and isinstance(evs[0], tuple) else list(evs)
    if sched == 'each':
        out = []
        for e in es:
            out.append(e)
            out.append('~')
        es = out[:-1] if out else out
    elif sched == 'rand':
        out = []
        for e in es:
            out.append(e)
            if rng.random() < 0.4:
                out.append('~')
        es = out
    if rng is not None and tag in ('base', 'mut', 'flt', 'huf', 'wt', 'app') and es and rng.random() < 0.12:
        # non-contiguous RecvStream::Buf: every delivered chunk is handed to h3 cut into n-byte segments
        es = ['SEG%d' % rng.choice([1, 2, 3, 7])] + es
    s = ','.join(es) or '-'
    return 'run %s %s %s%s' % (role, opts, s, (' ' + tag) if tag else '')


RESET_CODES = [0, 0x100, 0x10c, 0x10b, 0x33, 2 ** 62 - 1]
CLOSE_CODES = [0, 0x100, 0x101, 0x1, 2 ** 62 - 1]


def fault_variants(sid, rng, k):
    """the k-th fault kind on stream sid"""
    return ['%d:F' % sid, '%d:R%d' % (sid, rng.choice(RESET_CODES)), '%d:S%d' % (sid, rng.choice(RESET_CODES)),
            'X%d' % rng.choice(CLOSE_CODES), 'T', 'I', 'XU', '%d:K' % sid][k]


def with_faults(sc, mode, rng, kinds=(0, 1, 2, 3, 4, 5, 6, 7), sched='each', tag='flt'):
    """a fault of every kind at EVERY step index of the scenario"""
    evs = events_of(sc, mode, rng)
    ids = sc.streams()
    out = []
    for i in range(len(evs) + 1):
        # the stream of this step, plus (for variety) one other stream of the scenario
        here = evs[i][1] if i < len(evs) else evs[-1][1]
        targets = [here]
        if len(ids) > 1:
            targets.append(ids[(ids.index(here) + 1) % len(ids)])
        for k in kinds:
            for t in (targets if k < 3 or k == 7 else targets[:1]):
                f = fault_variants(t, rng, k)
                new = evs[:i] + [(f, t)] + evs[i:]
                out.append(line(sc.role, sc.opts, new, sched, rng, tag))
    return out


# ---------------------------------------------------------------- grammar-directed mutation

HUGE = [0, 1, 63, 64, 16383, 16384, 2 ** 30 - 1, 2 ** 30, 2 ** 32 - 1, 2 ** 32, 2 ** 32 + 1, 2 ** 53, 2 ** 62 - 1]

QPACK_BAD = [
    b'', b'\x00', b'\x05\x00\xd1', b'\x00\x80\xd1', b'\x00\x00\xff', b'\x00\x00\xff\xff\xff\xff\xff\xff\xff\xff\xff\xff\x7f',
    b'\x00\x00\xff\x80\x80\x80\x80\x80\x80\x80\x80\x80\x01', b'\x00\x00\xc0' + b'\xff' * 9 + b'\x01', b'\x00\x00\xff\x24', b'\x00\x00\xfe\x25',
    b'\x00\x00\x10', b'\x00\x00\x80', b'\x00\x00\x00', b'\x00\x00\x50', b'\x00\x00\x50\x7f', b'\x00\x00\x50\x7f\xff\xff\xff\xff\xff\xff\xff\xff\xff\x00',
    b'\x00\x00\x51\x85\xfe\xff\xff\xff\xff', b'\x00\x00\x51\x81\xfe', b'\x00\x00\x51\x81\xff', b'\x00\x00\x51\x84\xff\xff\xff\xff', b'\x00\x00\x27\x7f', b'\x00\x00\x2f\x00\x61\x01\x62',
    b'\x00\x00\x23abc\x7f\x80\x80\x80\x80\x80\x80\x80\x80\x7f', b'\x00\x00\x28\x01a', b'\x00\x00\x20\x00', b'\x00\x00\x21\x3a\x00', b'\x00\x00\x23\x3apa\x01/',
    b'\xff' * 12, b'\x00\x7f', b'\x00\xff\xff\xff\xff\xff\xff\xff\xff\xff\x7f', block([idx(17), idx(17), idx(25)]), block([idx(25), idx(17)]),
    block([lit(b'A', b'b')]), block([lit(b'a"', b'b')]), block([lit(b'a', b'\x00\n')]), block([lit(b':path', b'')] + [idx(17), idx(23)]),
    block([idx(17), idx(23), idx(1), lit(b'host', b'')]), block([idx(15)]), block([idx(98)]), block([idx(99)]),
    block([idx(17), idx(23), idx(1), lit_ref_h(0, b'www.example.com')]), block([idx(25), lit_h(b'a', b'0' * 8)]), block([idx(25), lit_h(b'abcdefgh', b'12345678' * 8)]),
    block([idx(17), idx(23), idx(1), lit_ref_h(0, b'www.example.com', extra_pad_bytes=1)]), block([idx(25), lit_h(b'a', b'xyz', pad_ones=False)]),
    block([idx(25), lit_h(b'a', b'\x00\x01\x02\xff')]), block([idx(25), lit_h(b'a', b'')]),
] + [
    # Huffman literals that contain the 30-bit EOS code followed by 2..66 further bits (runs of 0xff of 4..12 octets, alone
    # and after a complete symbol), as a value and as a name: the walk of the decoding tables goes past the EOS leaf
    # (seeded C06-rt3b: an unchecked index into the empty table behind EOS panicked)
    b'\x00\x00\x51' + bytes([0x80 | (len(pre) + n)]) + pre + b'\xff' * n
    for n in range(4, 13) for pre in (b'', b'\x00', b'\x7f')
] + [
    b'\x00\x00' + bytes([0x28 | n]) + b'\xff' * n + b'\x01a' for n in (4, 5, 6)
] + [
    b'\x00\x00\x2f' + bytes([n - 7]) + b'\xff' * n + b'\x01a' for n in (7, 8, 12)
]


def mutate_parts(parts, rng, role):
    """parts = list of byte strings (stream type byte / frames); returns a mutated flat byte string"""
    parts = list(parts)
    k = rng.randint(0, 13)
    flat = b''.join(parts)
    if k == 0 and flat:            # flip
        i = rng.randrange(len(flat))
        return flat[:i] + bytes([flat[i] ^ (1 << rng.randrange(8))]) + flat[i + 1:]
    if k == 1:                     # insert
        i = rng.randint(0, len(flat))
        return flat[:i] + bytes([rng.choice([0, 1, 4, 7, 0x3f, 0x40, 0x7f, 0x80, 0xbf, 0xc0, 0xff, rng.getrandbits(8)])]) + flat[i:]
    if k == 2 and flat:            # delete
        i = rng.randrange(len(flat))
        return flat[:i] + flat[i + 1:]
    if k == 3 and flat:            # truncate
        return flat[:rng.randrange(len(flat))]
    if k == 4 and len(parts) > 1:  # duplicate / swap / drop a frame
        i = rng.randrange(len(parts))
        c = rng.randint(0, 2)
        if c == 0:
            parts.insert(i, parts[i])
        elif c == 1:
            j = rng.randrange(len(parts))
            parts[i], parts[j] = parts[j], parts[i]
        else:
            del parts[i]
        return b''.join(parts)
    if k in (5, 6):                # splice a foreign / forbidden / odd frame
        pool = [SETTINGS_EMPTY, SETTINGS_SOME, frame(H_DATA, b'zz'), frame(H_DATA, b''), frame(H_GOAWAY, vi(4)), frame(H_GOAWAY, b''), frame(H_GOAWAY, vi(4) + b'\x00'),
                frame(H_GOAWAY, vi(2 ** 62 - 1)), frame(H_GOAWAY, vi(3)), frame(H_CANCEL, vi(0)), frame(H_CANCEL, b''), frame(H_MAXPUSH, vi(7)), frame(H_MAXPUSH, b'\x40'),
                frame(H_PUSHPROMISE, vi(1) + REQ_GET), frame(H_PUSHPROMISE, b''), frame(2, b'\x00' * 5), frame(6, b'\x00' * 8), frame(8, b'\x00' * 4), frame(9, b''),
                GREASE_FRAME, frame(0x21, b''), frame(2 ** 62 - 1, b'x'), enc(0x41, 2) + vi(0), enc(0x41, 2) + vi(4), enc(0x41, 2), frame(H_HEADERS, REQ_GET),
                frame(H_HEADERS, RESP_200), frame(H_HEADERS, TRAILERS), frame(H_HEADERS, b''), frame(H_SETTINGS, vi(6)), frame(H_SETTINGS, vi(6) + vi(1) + vi(6) + vi(2)),
                frame(H_SETTINGS, vi(2) + vi(0)), frame(H_SETTINGS, vi(0x33) + vi(2)), frame(H_SETTINGS, vi(8) + vi(2 ** 62 - 1)), frame(H_SETTINGS, b'\xc0'),
                frame(H_SETTINGS, b''.join(vi(0x21 + 0x1f * i) + vi(i) for i in range(40))), enc(H_DATA, 8) + enc(3, 8) + b'abc', enc(H_HEADERS, 4) + enc(len(REQ_GET), 2) + REQ_GET]
        i = rng.randint(0, len(parts))
        parts.insert(i, rng.choice(pool))
        return b''.join(parts)
    if k in (7, 8):                # change a length varint
        cand = [i for i, p in enumerate(parts) if len(p) >= 2]
        if cand:
            i = rng.choice(cand)
            p = parts[i]
            ty = p[0]
            if ty < 0x40 and p[1] < 0x40:
                body = p[2:]
                L = rng.choice(HUGE + [max(0, len(body) - 1), len(body) + 1, len(body) + rng.randint(2, 300)])
                forms = [l for l in (1, 2, 4, 8) if L < 2 ** (8 * l - 2)]
                parts[i] = bytes([ty]) + enc(L, rng.choice(forms)) + body
        return b''.join(parts)
    if k in (9, 10):               # replace a HEADERS payload by a hostile field section
        cand = [i for i, p in enumerate(parts) if len(p) >= 2 and p[0] == H_HEADERS]
        bad = rng.choice(QPACK_BAD)
        if rng.random() < 0.3:
            bad = bytes(rng.getrandbits(8) for _ in range(rng.randint(0, 24)))
        elif rng.random() < 0.3:
            base = bytearray(REQ_GET if role == 'srv' else RESP_200)
            i = rng.randrange(len(base))
            base[i] ^= 1 << rng.randrange(8)
            bad = bytes(base)
        if cand:
            parts[rng.choice(cand)] = frame(H_HEADERS, bad)
        else:
            parts.append(frame(H_HEADERS, bad))
        return b''.join(parts)
    if k == 11:                    # non-minimal varints everywhere
        out = b''
        for p in parts:
            if len(p) >= 2 and p[0] < 0x40 and p[1] < 0x40:
                out += enc(p[0], rng.choice([1, 2, 4, 8])) + enc(p[1], rng.choice([1, 2, 4, 8])) + p[2:]
            else:
                out += p
        return out
    if k == 12:                    # random tail
        return flat + bytes(rng.getrandbits(8) for _ in range(rng.randint(1, 16)))
    return bytes(rng.getrandbits(8) for _ in range(rng.randint(0, 40)))


def mutated(sc, rng):
    """one mutated copy of the scenario (one data op of one stream is rewritten)"""
    ops = list(sc.ops)
    cand = [i for i, op in enumerate(ops) if op[0] == 'd']
    i = rng.choice(cand)
    ops[i] = ('d', ops[i][1], [mutate_parts(ops[i][2], rng, sc.role)])
    r = rng.random()
    if r < 0.15:
        # drop the FIN of that stream / add one
        ops = [op for op in ops if not (op[0] == 'F' and op[1] == ops[i][1])]
    elif r < 0.3:
        ops.append(('F', ops[i][1]))
    return Sc(sc.role, sc.opts, ops, sc.name + '-mut')


def random_scenario(rng):
    role = rng.choice(['srv', 'cli'])
    opts = rng.choice(['pa', 'pb', 'pa+g', 'pa+w', 'pa+m64', 'pa+n2', 'pb+b'])
    if role == 'srv' and 'n2' in opts:
        opts = 'pa'
    ops = []
    unis = [2, 6, 10, 14] if role == 'srv' else [3, 7, 11, 15]
    bidis = [0, 4]
    for u in unis[:rng.randint(0, 4)]:
        ops.append(('U', u))
    if role == 'srv':
        for b in bidis[:rng.randint(0, 2)]:
            ops.append(('B', b))
    ids = [op[1] for op in ops] + (bidis if role == 'cli' else [])
    n = rng.randint(1, 8)
    for _ in range(n):
        if not ids:
            break
        sid = rng.choice(ids)
        c = rng.random()
        if c < 0.5:
            b = bytes(rng.getrandbits(8) for _ in range(rng.randint(1, 12)))
        elif c < 0.8:
            b = bytes(rng.choice([0, 1, 2, 3, 4, 5, 7, 0x0d, 0x21, 0x40, 0x41, 0x54, 0x80, 0xc0, 0xff]) for _ in range(rng.randint(1, 10)))
        else:
            b = rng.choice([b'\x00' + SETTINGS_EMPTY, frame(H_HEADERS, REQ_GET), frame(H_HEADERS, RESP_200), frame(H_DATA, b'ab'), b'\x02', b'\x03', b'\x01\x00', b'\x54\x00'])
        ops.append(('d', sid, [b]))
        if rng.random() < 0.2:
            ops.append(('F', sid))
    return Sc(role, opts, ops, 'random')


# ---------------------------------------------------------------- hostile field sections, deterministically

INT_EXTREMES = [2 ** 31 - 1, 2 ** 31, 2 ** 32 - 1, 2 ** 32, 2 ** 53, 2 ** 62 - 1, 2 ** 62, 2 ** 63 - 2, 2 ** 63 - 1, 2 ** 63, 2 ** 63 + 1,
                2 ** 63 + 2, 2 ** 63 + 62, 2 ** 63 + 126, 2 ** 63 + 127, 2 ** 64 - 2, 2 ** 64 - 1, 2 ** 64]


def hostile_sections():
    """Every QPACK_BAD section, plus every integer position of a field section (Required Insert Count, Delta Base with
    both signs, static / dynamic / post-base indices, name-reference indices, name and value lengths, plain and Huffman)
    at the arithmetic extremes of the decoder's 64-bit range - an overflow needs one exact value (seeded C06-rt3)."""
    out = list(QPACK_BAD)
    tail = idx(17) + idx(1)
    for v in INT_EXTREMES:
        out.append(pint(8, 0, v) + b'\x00' + tail)                 # Required Insert Count
        out.append(b'\x00' + pint(7, 0, v) + tail)                 # Delta Base, S = 0
        out.append(b'\x00' + pint(7, 1, v) + tail)                 # Delta Base, S = 1 (negative base)
        out.append(pint(8, 0, 1) + pint(7, 1, v) + tail)            # the same with a non-zero insert count
        out.append(pint(8, 0, v) + pint(7, 1, v) + tail)
        out.append(b'\x00\x00' + pint(6, 3, v))                    # indexed, static
        out.append(b'\x00\x00' + pint(6, 2, v))                    # indexed, dynamic
        out.append(b'\x00\x00' + pint(4, 1, v))                    # indexed, post-base
        out.append(b'\x00\x00' + pint(4, 5, v) + b'\x01a')         # literal with static name reference
        out.append(b'\x00\x00' + pint(4, 4, v) + b'\x01a')         # literal with dynamic name reference
        out.append(b'\x00\x00' + pint(3, 0, v) + b'\x01a')         # literal with post-base name reference
        out.append(b'\x00\x00' + pint(3, 4, v) + b'a')             # literal name length, plain
        out.append(b'\x00\x00' + pint(3, 5, v) + b'a')             # literal name length, Huffman
        out.append(b'\x00\x00\x51' + pint(7, 0, v) + b'a')         # value length, plain
        out.append(b'\x00\x00\x51' + pint(7, 1, v) + b'a')         # value length, Huffman
    return out


def hostile_section_cases(rng):
    out = []
    srv_ctl = [('U', 2), d(2, b'\x00', SETTINGS_EMPTY)]
    cli_ctl = [('U', 3), d(3, b'\x00', SETTINGS_EMPTY)]
    for sec in hostile_sections():
        scs = [Sc('srv', 'pa', srv_ctl + [('B', 0), d(0, frame(H_HEADERS, sec)), ('F', 0)], 'hostile-req'),
               Sc('srv', 'pa', srv_ctl + [('B', 0), d(0, frame(H_HEADERS, REQ_POST), frame(H_DATA, b'ab'), frame(H_HEADERS, sec)), ('F', 0)], 'hostile-req-trailers'),
               Sc('cli', 'pa', cli_ctl + [d(0, frame(H_HEADERS, sec)), ('F', 0)], 'hostile-resp'),
               Sc('cli', 'pa+b', cli_ctl + [d(0, frame(H_HEADERS, RESP_200), frame(H_DATA, b'ab'), frame(H_HEADERS, sec)), ('F', 0)], 'hostile-resp-trailers')]
        for sc in scs:
            out.append(line(sc.role, sc.opts, events_of(sc, 'one', rng), 'each', rng, 'hostile'))
    return out



def big_cases(tier='quick'):
    out = []
    for n in (24576, 24577, 32768, 40000):
        L = 2 + n
        hdr = vi(H_HEADERS) + vi(L) + b'\x00\x00'
        out.append('run srv pa U2,2:c:000400,B0,0:c:%s,0:z:d1x%d,0:F big' % (hdr.hex(), n))
        out.append('run cli pa U3,3:c:000400,0:c:%s,0:z:d9x%d,0:F big' % (hdr.hex(), n))
        # as trailers
        out.append('run srv pa U2,2:c:000400,B0,0:c:%s,0:c:%s,0:z:d1x%d,0:F big' % (frame(H_HEADERS, REQ_GET).hex(), hdr.hex(), n))
    # many literal fields: `2161` + `0162` = a: b
    n = 30000
    hdr = vi(H_HEADERS) + vi(2 + 4 * n) + b'\x00\x00'
    out.append('run srv pa U2,2:c:000400,B0,0:c:%s,0:c:%s,0:F big' % (hdr.hex(), (b'\x21a\x01b' * n).hex()))
    # a DATA frame announcing 2^62-1 bytes, then 1 MiB, then FIN
    out.append('run srv pa U2,2:c:000400,B0,0:c:%s,0:c:%s,0:z:00x1048576,~,0:F big' % (frame(H_HEADERS, REQ_POST).hex(), (vi(0) + vi(2 ** 62 - 1)).hex()))
    out.append('run cli pa U3,3:c:000400,0:c:%s,0:c:%s,0:z:00x1048576,~,0:F big' % (frame(H_HEADERS, RESP_200).hex(), (vi(0) + vi(2 ** 62 - 1)).hex()))
    # unknown frame of 1 MiB skipped in pieces; a huge unknown frame never completed
    out.append('run srv pa U2,2:c:000400,B0,0:c:%s,0:z:00x1048576,0:c:%s,0:F big' % ((vi(0x21) + vi(1048576)).hex(), frame(H_HEADERS, REQ_GET).hex()))
    out.append('run srv pa U2,2:c:00%s,~,2:z:00x65536,~,2:F big' % (vi(0x21) + vi(2 ** 62 - 1)).hex())
    # a field line whose string length is 2^31 / 2^32 / 2^63
    for ln in (2 ** 31, 2 ** 32, 2 ** 62, 2 ** 63 - 1 + 127):
        fs = b'\x00\x00' + pint(3, 0b00100, 1) + b'a' + pint(7, 0, ln) + b'xx'
        out.append('run srv pa U2,2:c:000400,B0,0:c:%s,0:F big' % frame(H_HEADERS, fs).hex())
    if tier != 'quick':
        # C06-H1 / F18: a Huffman string literal of exactly 2^29 bytes (and one byte less): about a minute and 2.5 GB each
        for n in (2 ** 29, 2 ** 29 - 1):
            ln = pint(7, 1, n)
            hdr = vi(H_HEADERS) + vi(2 + 1 + len(ln) + n) + b'\x00\x00\x50' + ln
            out.append('run srv pa U2,2:c:000400,B0,0:c:%s,0:z:00x%d,0:F huge' % (hdr.hex(), n))
    return out


def huffman_cases(rng, n_random):
    """VALID Huffman literals: every decoded length 1..64, every padding length 0..7, codes from 5 to 30 bits, as value and as name,
    with proper EOS-prefix padding, plus over-long padding / zero padding variants"""
    out = []
    alph_short = b'012aceiost %-./3456789=A_bdfghlmnpru'      # 5..6 bit codes
    alph_long = bytes([0, 1, 9, 10, 13, 22, 127, 128, 200, 249, 255, 92, 123, 60, 126, 94])   # 13..30 bit codes
    strings = []
    for ln in range(1, 65):
        strings.append(bytes(rng.choice(alph_short) for _ in range(ln)))
        strings.append(bytes(rng.choice(alph_short + alph_long) for _ in range(ln)))
    for pad in range(8):
        # search a short string with exactly `pad` padding bits
        for _ in range(200):
            sb = bytes(rng.choice(alph_short + alph_long) for _ in range(rng.randint(8, 20)))
            bits = sum(huff_table()[c][0] for c in sb)
            if (-bits) % 8 == pad:
                strings.append(sb)
                break
    for _ in range(n_random):
        strings.append(bytes(rng.getrandbits(8) for _ in range(rng.randint(1, 64))))
    for k, sb in enumerate(strings):
        kw = {}
        if k % 11 == 10:
            kw = {'extra_pad_bytes': rng.choice([1, 4])}
        elif k % 13 == 12:
            kw = {'pad_ones': False}
        req = block([idx(17), idx(23), lit_ref_h(0, b'www.example.com'), idx(1), lit_h(b'x-v', sb, **kw)] + ([lit_h(sb, b'v')] if k % 3 == 0 else []))
        resp = block([idx(25), lit_h(b'x-v', sb, **kw)])
        mode = ['one', 'byte', 'rand'][k % 3]
        sc = Sc('srv', 'pa', [('U', 2), d(2, b'\x00', SETTINGS_EMPTY), ('B', 0), d(0, frame(H_HEADERS, req), frame(H_HEADERS, block([lit_h(b'x-t', sb, **kw)]))), ('F', 0)], 'huf')
        out.append(line(sc.role, sc.opts, events_of(sc, mode, rng), 'each' if k % 2 else 'end', rng, 'huf'))
        sc = Sc('cli', 'pa', [('U', 3), d(3, b'\x00', SETTINGS_EMPTY), d(0, frame(H_HEADERS, resp)), ('F', 0)], 'huf')
        out.append(line(sc.role, sc.opts, events_of(sc, mode, rng), 'each' if k % 2 else 'end', rng, 'huf'))
    return out


OWN_STREAMS = {'srv': [3, 7, 11], 'cli': [2, 6, 10], 'wts': [3, 7, 11]}
BUDGETS = [0, 1, 2, 3, 7, 63]


def backpressure_cases(bases, rng, rounds):
    """write budgets / stream credits withheld and granted piecemeal (W<id>:<k>, G<n>, H<n>), optionally with a fault while
    a write is pending; send calls carry the targets w<id> / wc and may pend only while credit is withheld"""
    out = []
    for r in range(rounds):
        for sc in bases:
            own = OWN_STREAMS[sc.role]
            reqs = [i for i in sc.streams() if i % 4 == 0] or [0]
            k = BUDGETS[(r + len(out)) % len(BUDGETS)]
            opts = sc.opts + '+q%d' % k
            c = rng.random()
            if c < 0.25:
                opts += '+u%d' % rng.choice([0, 1, 2, 3])
            elif c < 0.4 and sc.role == 'cli':
                opts += '+h%d' % rng.choice([0, 1])
            if rng.random() < 0.3:
                opts += '+' + rng.choice(['t', 's', 'y', 't+s'])
            evs = events_of(sc, rng.choice(['one', 'one', 'rand']), rng)
            new = []
            for e in evs:
                new.append(e)
                if rng.random() < 0.6:
                    sid = rng.choice(own + reqs)
                    new.append(('W%d:%d' % (sid, rng.choice([1, 1, 2, 3, 7, 64, 1000])), sid))
                if rng.random() < 0.15:
                    new.append((rng.choice(['G1', 'G3', 'H1', 'H2']), reqs[0]))
            # tail: keep granting in small steps
            for _ in range(rng.randint(0, 12)):
                sid = rng.choice(own + reqs)
                new.append(('W%d:%d' % (sid, rng.choice([1, 2, 3, 7, 64, 100000])), sid))
            if rng.random() < 0.5:
                # a fault while writes are pending: STOP_SENDING / RESET on a request or own stream, connection close
                i = rng.randint(0, len(new))
                sid = rng.choice(own + reqs)
                new.insert(i, (fault_variants(sid, rng, rng.choice([1, 2, 2, 2, 3, 4, 6, 7])), sid))
            out.append(line(sc.role, opts, new, 'each', rng, 'bp'))
    # the W* form (default budget of streams opened later), every k, before anything runs
    for role, ctlid in (('srv', 2), ('cli', 3)):
        for k in BUDGETS:
            out.append('run %s pa W*:%d,~,U%d,%d:c:000400,~,W%d:1,~,W%d:2,~,W%d:100 bp' % (role, k, ctlid, ctlid, ctlid ^ 1, ctlid ^ 1, ctlid ^ 1))
    return out


def own_stream_fault_cases(bases, rng):
    """STOP_SENDING / RESET aimed at the streams h3 itself opened (control, QPACK encoder / decoder), at every step"""
    out = []
    for sc in bases:
        evs = events_of(sc, 'one', rng)
        for i in range(len(evs) + 1):
            for sid in OWN_STREAMS[sc.role]:
                kind = rng.choice([1, 2, 2, 7])
                new = evs[:i] + [(fault_variants(sid, rng, kind), sid)] + evs[i:]
                out.append(line(sc.role, sc.opts, new, 'each', rng, 'own'))
            # grease ON (the default of h3): the grease stream is the 4th own uni stream (15 on a server, 14 on a client);
            # an RFC-conformant peer stops / ignores unknown stream types
            gid = 15 if sc.role != 'cli' else 14
            if 'g' not in sc.opts.split('+'):
                kind = rng.choice([1, 2, 2, 2, 7])
                new = evs[:i] + [(fault_variants(gid, rng, kind), gid)] + evs[i:]
                opts = sc.opts + '+g' + rng.choice(['', '', '+q1', '+q3', '+q0'])
                if 'q' in opts.split('+')[-1]:
                    new = new + [('W%d:%d' % (g, rng.choice([1, 2, 7, 1000])), g) for g in OWN_STREAMS[sc.role] + [gid] for _ in range(2)]
                out.append(line(sc.role, opts, new, 'each', rng, 'own'))
    return out


APP_OPTS = {'srv': ['t', 's', 'x', 'y', 't+s', 's+x', 'k0', 'k1', 'k2', 'k1+t', 'x+y', 'pb+s+t', 'N', 'D', 'D+w', 'k1+q3', 'g'],
            'cli': ['t', 's', 'x', 'y', 'b+t', 'b+t+s', 'd', 'n2+d', 's+x', 'b+y', 'c', 'n2+c', 'n2+c+d', 'n3+c+d+b', 'i', 'z', 'N', 'N+i', 'i+n2', 'z+n2', 'D', 'D+i', 'g+i']}


def app_cases(bases, rng, rounds):
    """the application calls beyond the plain pattern: send_trailers, stop_sending, stop_stream, shutdown(n) then more
    accept(), split(), dropping the SendRequest handle"""
    out = []
    for r in range(rounds):
        for sc in bases:
            for extra in APP_OPTS[sc.role]:
                opts = sc.opts + '+' + extra
                evs = events_of(sc, rng.choice(['one', 'rand']), rng)
                if 'D' in extra.split('+'):
                    for _ in range(rng.randint(1, 4)):
                        dg = rng.choice([b'\x00ab', b'\x00', b'', b'\x40', b'\x40\x00xyz', b'\xff' * 8 + b'q', bytes(rng.getrandbits(8) for _ in range(rng.randint(1, 12)))])
                        evs.insert(rng.randint(0, len(evs)), ('D:' + dg.hex(), 0))
                if r > 0 or rng.random() < 0.5:
                    if evs:
                        i = rng.randint(0, len(evs))
                        t = evs[min(i, len(evs) - 1)][1]
                        evs = evs[:i] + [(fault_variants(t, rng, rng.choice([0, 1, 2, 3, 4, 6, 7])), t)] + evs[i:]
                out.append(line(sc.role, opts, evs, rng.choice(['each', 'each', 'rand']), rng, 'app'))
    return out


WT_SETTINGS = bytes.fromhex('00040e0801ab603742013301ab60374301')
WT_CONNECT = block([idx(15), idx(23), lit_ref(0, b'a'), idx(1), lit(b':protocol', b'webtransport')])


def wt_cases(rng, rounds):
    """a WebTransport session on the server; the session's streams are read through BOTH AsyncRead impls of BufRecvStream
    with read sizes around the chunk size"""
    out = []
    for r in range(rounds):
        for bidi in (False, True):
            for c in (1, 5, 16, 100):
                for k in sorted({1, 2, max(1, c - 1), c, c + 1}):
                    for mode in ('r', 'o'):
                        payload = bytes(rng.getrandbits(8) for _ in range(c * rng.randint(1, 3) + rng.choice([0, 0, 1])))
                        if bidi:
                            sid, open_ev, hdr = 4, 'B4', enc(0x41, 2) + rng.choice([vi(0), enc(0, 2), enc(0, 8), vi(4)])
                        else:
                            sid, open_ev, hdr = 6, 'U6', enc(0x54, 2) + rng.choice([vi(0), enc(0, 2), enc(0, 4), vi(8)])
                        evs = [('U2', 2), ('2:c:' + WT_SETTINGS.hex(), 2), ('B0', 0), ('0:c:' + frame(H_HEADERS, WT_CONNECT).hex(), 0), (open_ev, sid)]
                        data = hdr + payload
                        # the header may share a chunk with payload bytes
                        first = rng.choice([len(hdr), len(hdr) + min(c, len(payload)), 1])
                        pieces = [data[:first]] + [data[first:][i:i + c] for i in range(0, len(data) - first, c)]
                        evs += [('%d:c:%s' % (sid, p.hex()), sid) for p in pieces if p]
                        end = rng.choice(['F', 'F', 'R', 'none', 'X'])
                        if end == 'F':
                            evs.append(('%d:F' % sid, sid))
                        elif end == 'R':
                            evs.append(('%d:R%d' % (sid, rng.choice(RESET_CODES)), sid))
                        elif end == 'X':
                            evs.append(('X%d' % rng.choice(CLOSE_CODES), sid))
                        if r > 0 and rng.random() < 0.5:
                            i = rng.randint(0, len(evs))
                            t = evs[min(i, len(evs) - 1)][1]
                            evs = evs[:i] + [(fault_variants(t, rng, rng.choice([0, 1, 2, 3, 4, 6, 7])), t)] + evs[i:]
                        opts = 'pa+%s%d%s' % (mode, k, '+ab' if bidi else '')
                        if rng.random() < 0.25:
                            opts += '+O' + rng.choice(['', '+q1', '+q3', '+u1'])
                            if 'q' in opts or 'u' in opts:
                                evs += [(rng.choice(['W%d:%d' % (g, rng.choice([1, 3, 64, 1000])) for g in (3, 7, 11, 15, 1, 0)] + ['G2', 'H1']), 0) for _ in range(rng.randint(2, 10))]
                        if r > 0 and rng.random() < 0.3:
                            # damage the WebTransport stream header / session id / CONNECT request
                            j = rng.choice([i2 for i2, e in enumerate(evs) if ':c:' in e[0]])
                            h = bytearray(bytes.fromhex(evs[j][0].split(':c:')[1]))
                            pos = rng.randrange(len(h))
                            h[pos] ^= 1 << rng.randrange(8)
                            evs[j] = (evs[j][0].split(':c:')[0] + ':c:' + bytes(h).hex(), evs[j][1])
                        out.append(line('wts', opts, evs, rng.choice(['each', 'end', 'rand']), rng, 'wt'))
    return out


EV_RE = re.compile(r'^(\d+):c:([0-9a-f]+)$')
CALL_ERR_RE = re.compile(r'^err:[cs]:(\d+|-):[A-Za-z]+$')


class P(Property):
    id = 'C06'
    # every generated-facts file in the Coq closure of Properties/C06.v is regenerated from the working tree on each run
    gen_modules = ['gen_panicsites', 'gen_varint', 'gen_codes', 'gen_datagram', 'gen_frames', 'gen_headers', 'gen_huffman',
                   'gen_huffman_enc', 'gen_bitwin', 'gen_huffiter', 'gen_prefixint', 'gen_prefixstring', 'gen_qstateless', 'gen_settings',
                   'gen_sharederr', 'gen_static', 'gen_unistreams']
    properties_v = 'Properties/C06.v'
    model_targets = ['Spec/C06Liveness.vo']
    extract_v = 'Extract/ExtractC06.v'
    driver_ml = 'C06_driver.ml'
    harness_bin = 'c06'
    rule = ('adversarial scripted peer against the real server and client connection objects over SimQuic, application following the '
            'documented call pattern (two orders per role): 24 base scenarios x {per-frame, 1-byte, random} delivery x a fault '
            '(FIN, RESET code, STOP_SENDING code, connection close code, idle timeout, transport error unknown to h3 (XU), receive half failing with '
            'StreamErrorIncoming::Unknown (K)) inserted at EVERY step index; K on a control / QPACK stream must give exactly the result of a RESET there;  grammar-directed mutants '
            '(bit flip, insert, delete, truncate, frame duplicate/swap/drop, foreign/forbidden/short/long fixed-field frames, length varints '
            'from {0, L-1, L+1, 2^14.., 2^30.., 2^32-1, 2^32, 2^62-1} in every varint form, hostile QPACK field sections, non-minimal varints, '
            'random tails) with and without a fault; random byte streams on control / QPACK / unknown / request streams; 24576..40000 field lines; '
            'VALID Huffman literals (every decoded length 1..64, every padding length 0..7, 5..30 bit codes, as name and value, over-long / zero padding); '
            'back-pressure (write budgets 0,1,2,3,7,63 and stream credits 0..3 withheld, granted piecemeal by W<id>:<k> / G / H, faults while a write is pending; '
            'send calls wait on peer credit and must end on STOP_SENDING or connection loss); STOP_SENDING / RESET on the streams h3 itself opened; application calls '
            'send_trailers, stop_sending, stop_stream, shutdown(n) then accept(), split(), SendRequest drop; a WebTransport session whose uni / bidi streams are read '
            'through both AsyncRead impls with buffer sizes {1,2,c-1,c,c+1}, WebTransport open_uni / open_bi and their write side, damaged WebTransport headers; '
            'client drivers awaiting wait_idle() and calling client shutdown, h3::client::new / server::Connection::new, an h3-datagram reader / sender task fed by D:<hex> events; '
            'faults and budgets on the grease stream; non-contiguous receive buffers (SEG<n>); stream ids above 15; accept / poll_close / wait_idle must complete once the peer control stream ended; every error is also rendered with Display / is_h3_no_error / source() inside the case; '
            'oracle: no panic, no process crash, no executor livelock, no call pending at quiescence once its stream was FINed/RESET or the '
            'connection was lost, no call that completes only after a forced re-poll at quiescence (lost wake-up), nothing pending after the final '
            'connection close, errors are proper (scope:code:variant, and no self-declared H3_INTERNAL_ERROR unless the transport reported an internal error). '
            'non-trivial = distinct cases in which a decoder below the frame layer was reached (a resolve_request / recv_response / '
            'recv_trailers call completed, or the control stream produced a connection error) or a fault was injected before the last step')
    partial_note = ('C06 is partial.  Theorems are about hand-written component MODELS (varint, datagram header, prefixed integers, Huffman, string '
                    'literals, stateless QPACK, SETTINGS, Header/Request/Response/trailers construction, Frame::decode, buf.rs Cursor, FrameStream under the '
                    'call contract "poll_data while a DATA payload is owed" (no CallNext), the AcceptRecvStream header reader, the one-frame composition; '
                    'progress for FrameStream, the header reader, the connection-error wake-up and single faulted requests (C07)).  There is NO theorem for: '
                    'stream openings / STOP_SENDING / connection close orderings at connection level, arithmetic overflow outside the modelled functions, the '
                    'send side (WriteBuf under partial acceptance is C14), resolve_request / recv_response / recv_data / recv_trailers / accept / poll_close as '
                    'whole calls, the glue of connection.rs (RequestStream state, ConnectionInner poll_control / poll_accept_recv / grease), the server accept loop, '
                    'h3-webtransport and the AsyncRead impls, tokio mpsc.  Those are covered by (a) the panic-site inventory over h3/src receive-path files, '
                    'error/*.rs, quic.rs, config.rs, ext.rs and h3-webtransport/src, whose rows AND owning-function fingerprints are reviewed by hand, and (b) the '
                    'adversarial search (incl. a WebTransport session read through both AsyncRead impls, back-pressure, faults on own streams).  The application '
                    'follows the documented drain pattern; calling recv_trailers while DATA payload is still owed is a documented-contract violation that panics '
                    '(notes/C06_findings.md H2).  Panics inside dependencies (http, bytes), allocation failure and stack depth are out of scope')
    trusted_extra = ['Spec/PanicReview.v is a hand-reviewed classification of the generated panic-site inventory (corpus/C06/panic_sites_reviewed.json)',
                     'SimQuic upholds the transport contract (no empty chunks, sticky FIN/RESET); STOP_SENDING is modelled as "the next write fails"',
                     'liveness is observed as "pending at executor quiescence"; the real tokio scheduler is not run']

    # ---------------------------------------------------------------- cases
    def cases(self, tier, rng):
        self._tier = tier
        quick = tier == 'quick'
        out = []
        bases = base_scenarios()
        # 1. base scenarios, all chunkings x schedules
        for sc in bases:
            for mode in ('one', 'byte', 'rand'):
                for sched in ('each', 'end', 'rand'):
                    out.append(line(sc.role, sc.opts, events_of(sc, mode, rng), sched, rng, 'base'))
            out.append(line(sc.role, sc.opts, events_of(sc, 'one', rng, perframe=False), 'end', rng, 'base'))
        # 2. a fault at every step index (exhaustive over step index)
        for sc in bases:
            out += with_faults(sc, 'one', rng)
            out += with_faults(sc, 'byte', rng, kinds=(0, 1, 3) if quick else (0, 1, 2, 3, 4, 5, 6, 7))
            if not quick:
                for _ in range(6):
                    out += with_faults(sc, 'rand', rng, kinds=(0, 1, 2, 3, 4, 5, 6, 7))
                out += with_faults(sc, 'one', rng, sched='end')
                out += with_faults(sc, 'byte', rng, sched='rand')
        # 3. grammar-directed mutants
        nmut = 9000 if quick else 3000000
        for n in range(nmut):
            sc = mutated(bases[n % len(bases)], rng)
            if rng.random() < 0.25:
                sc = mutated(sc, rng)
            mode = rng.choice(['one', 'one', 'byte', 'rand'])
            sched = rng.choice(['each', 'each', 'end', 'rand'])
            evs = events_of(sc, mode, rng)
            if rng.random() < 0.35 and evs:
                i = rng.randint(0, len(evs))
                t = evs[min(i, len(evs) - 1)][1]
                evs = evs[:i] + [(fault_variants(t, rng, rng.randint(0, 7)), t)] + evs[i:]
            out.append(line(sc.role, sc.opts, evs, sched, rng, 'mut'))
        # 3b. mutants with a fault at every step index (fewer)
        for n in range(40 if quick else 4000):
            sc = mutated(bases[n % len(bases)], rng)
            out += with_faults(sc, 'one', rng, kinds=(0, 1, 3), tag='mutflt')
        # 4. random byte streams
        for n in range(3000 if quick else 800000):
            sc = random_scenario(rng)
            evs = events_of(sc, rng.choice(['one', 'byte', 'rand']), rng)
            if rng.random() < 0.3 and evs:
                i = rng.randint(0, len(evs))
                t = evs[min(i, len(evs) - 1)][1]
                evs = evs[:i] + [(fault_variants(t, rng, rng.randint(0, 7)), t)] + evs[i:]
            out.append(line(sc.role, sc.opts, evs, rng.choice(['each', 'end', 'rand']), rng, 'rnd'))
        # 5. large inputs
        out += big_cases(tier)
        # 5b. every hostile field section / integer extreme, in request, response and trailer position
        out += hostile_section_cases(rng)
        # 6. valid Huffman literals (every length 1..64, every padding length, long codes)
        out += huffman_cases(rng, 40 if quick else 20000)
        # 7. back-pressure: credit withheld and granted piecemeal, faults while a write is pending
        out += backpressure_cases(bases, rng, 30 if quick else 3000)
        # 8. faults aimed at h3's own streams
        out += own_stream_fault_cases(bases, rng)
        # 9. the other application calls
        out += app_cases(bases, rng, 2 if quick else 200)
        # 10. WebTransport session streams through both AsyncRead impls
        out += wt_cases(rng, 2 if quick else 200)
        return out

    def impl_env(self):
        # watchdog of the harness: a single h3 call that spins is reported as a crash of that case
        return {'C06_CASE_TIMEOUT_S': os.environ.get('C06_CASE_TIMEOUT_S', '8' if getattr(self, '_tier', 'quick') == 'quick' else '900')}

    # ---------------------------------------------------------------- judging
    def family(self, case):
        w = case.split()
        return (w[4] if len(w) > 4 else 'corpus') + '.' + (w[1] if len(w) > 1 else '?')

    def canon(self, case, out):
        m = re.search(r'world=(\S+)', out or '')
        if out.startswith('panic') or out.startswith('crash'):
            # the world summary is not printed after a panic: the property verdict (spec_ok) carries the failure
            return 'world=?'
        return 'world=' + (m.group(1) if m else '?')

    def spec_ok(self, case, out, spec):
        if spec is None:
            return True
        if out.startswith('world='):      # the model column itself
            return True
        if not out.startswith('ok '):     # panic / crash / livelock / driver-error
            return False
        must = spec.split('must=')[1].split(' ')[0].split(',') if 'must=' in spec else []
        first, _, second = out[3:].partition(' | close ')
        f = dict(kv.split('=', 1) for kv in first.split(' ') if '=' in kv)
        s = dict(kv.split('=', 1) for kv in second.split(' ') if '=' in kv)
        w = case.split()
        transport_internal = 'I' in (w[3].split(',') if len(w) > 3 else [])
        for part in (f, s, {'calls': f.get('stuck', '-')}):
            calls = part.get('calls', '-')
            if calls != '-':
                for tok in calls.split(';'):
                    res = tok.split('=', 1)[1].split('*')[0]
                    if res.startswith('err') and not CALL_ERR_RE.match(res):
                        return False
                    # H3_INTERNAL_ERROR raised by h3 itself (not relayed from a transport-internal error `I`) is h3
                    # declaring its own malfunction on peer input (F11: "Unexpected end parsing varint")
                    if res.startswith('err:c:258:Local') and not transport_internal:
                        return False
        if f.get('stuck', '-') != '-':
            return False               # a call completed only after a forced re-poll: lost wake-up
        bp = ' bp=1' in (' ' + spec)
        pend = f.get('pend', '-')
        if pend != '-':
            for tok in pend.split(';'):
                target = tok.rsplit('@', 1)[1]
                if bp and '.resolve_request@' in tok and '*' not in must:
                    # over the field-section limit resolve_request itself writes the 431 response: under back-pressure it
                    # waits on the stream's send credit as well
                    if target in must and ('w' + target) in must:
                        return False
                    continue
                if '*' in must or target in must:
                    return False
                if 'ctl' in must and re.search(r'\.(accept|poll_close|wait_idle)@c$', tok):
                    return False     # the peer's control stream ended: the call reading it must complete (H3_CLOSED_CRITICAL_STREAM)
                if target.startswith('w') and not bp:
                    return False     # a send-side call pending although no credit is withheld
        if s.get('pend', '-') != '-':
            return False
        return True

    def nontrivial_key(self, case, impl_out):
        if re.search(r'(resolve_request|recv_response|recv_trailers)@\d+=', impl_out) or re.search(r'(accept|poll_close)@c=err', impl_out.split(' | close ')[0]):
            return case
        w = case.split()
        evs = w[3].split(',') if len(w) > 3 else []
        real = [e for e in evs if e != '~']
        for i, e in enumerate(real[:-1]):
            if re.match(r'^(\d+:[FRSK]\d*|X\d+|XU|T|I)$', e):
                return case
        return None

    def shrink_candidates(self, case):
        w = case.split()
        if len(w) < 4 or w[3] == '-':
            return []
        evs = w[3].split(',')
        head, tail = w[:3], w[4:]
        out = []

        def mk(e):
            return ' '.join(head + [','.join(e) or '-'] + tail)
        # drop halves, then single events
        n = len(evs)
        if n > 3:
            out.append(mk(evs[:n // 2]))
            out.append(mk(evs[n // 2:]))
        for i in range(min(n, 60)):
            out.append(mk(evs[:i] + evs[i + 1:]))
        # merge adjacent chunks of the same stream, shorten chunks
        for i, e in enumerate(evs[:60]):
            m = EV_RE.match(e)
            if m and len(m.group(2)) > 2:
                h = m.group(2)
                out.append(mk(evs[:i] + ['%s:c:%s' % (m.group(1), h[:len(h) // 2 - (len(h) // 2) % 2] or h[:2])] + evs[i + 1:]))
                out.append(mk(evs[:i] + ['%s:c:%s' % (m.group(1), h[2:])] + evs[i + 1:]))
        return [c for c in out if c != case][:64]

    # ---------------------------------------------------------------- extra: name the unclassified panic sites
    def twin_checks(self, ctx):
        """quic.rs: StreamErrorIncoming::Unknown is to be handled exactly like StreamTerminated.  For the critical streams
        (control, QPACK encoder / decoder) the reset code plays no role, so every case with `<id>:K` there must give exactly
        the result of the same case with `<id>:R0`."""
        crit = {'srv': ('2', '6', '10'), 'wts': ('2', '6', '10'), 'cli': ('3', '7', '11')}
        pairs = []
        for (c, i, m, sp) in ctx['rows']:
            w = c.split()
            if len(w) < 4 or ':K' not in w[3]:
                continue
            evs = w[3].split(',')
            ks = [e for e in evs if e.endswith(':K')]
            if not ks or any(e.split(':')[0] not in crit.get(w[1], ()) for e in ks):
                continue
            twin = ' '.join(w[:3] + [','.join(e[:-1] + 'R0' if e.endswith(':K') else e for e in evs)] + w[4:])
            pairs.append((c, i, twin))
            if len(pairs) >= 4000:
                break
        if not pairs:
            return []
        import core
        outs = core.run_cases(ctx['bins'][self.harness_bin], [p[2] for p in pairs], env=self.impl_env())
        bad = []
        for (c, i, twin), o in zip(pairs, outs):
            if i != o:
                bad.append(('property-fails-on-input', {'input': c, 'impl': i, 'model': 'twin with RESET: ' + o, 'spec': 'Unknown on a critical stream must be handled exactly like StreamTerminated (quic.rs); twin case: ' + twin}))
                if len(bad) >= 2:
                    break
        self._twins = len(pairs)
        return bad

    def extra_checks(self, ctx):
        return self.twin_checks(ctx) + self.inventory_checks(ctx)

    def inventory_checks(self, ctx):
        """When the Rust source gained / moved a panic-capable site the Coq obligation C06_panic_sites_all_reviewed is
        already broken (=> VIOLATION by core); here the new rows are named in the log for the replay file."""
        try:
            import gen_panicsites
            f, _ = gen_panicsites.extract(REPO)
            have = {(s['file'], s['fn'], s['kind'], s['ord']) for s in json.load(open(os.path.join(ROOT, 'corpus', 'C06', 'panic_sites_reviewed.json')))['sites']}
            new = [r for r in f['rows'] if tuple(r) not in have]
        except Exception as ex:  # the Coq obligation is the judge; this is only reporting
            return [('inventory', {'error': 'panic-site scan failed: %s' % ex})]
        hp = {(q['file'], q['fn']): q['print'] for q in json.load(open(os.path.join(ROOT, 'corpus', 'C06', 'panic_sites_reviewed.json'))).get('functions', [])}
        changed = ['%s:%s %s' % (a, f['print_lines'][a + '|' + b], b) for (a, b, c) in f['prints'] if hp.get((a, b)) != c]
        if changed and not new:
            return [('inventory', {'changed_owner_functions': changed[:20],
                                   'explanation': 'function(s) owning reviewed panic-site rows were edited (operator / argument / guard): the reviewed verdicts no longer apply to this text'})]
        if new:
            rows = ['%s:%s %s %s #%d' % (r[0], f['lines']['|'.join([r[0], r[1], r[2], str(r[3])])], r[1], r[2], r[3]) for r in new[:20]]
            return [('inventory', {'unreviewed_panic_sites': rows, 'changed_owner_functions': changed[:20],
                                   'explanation': 'new or moved panic-capable construct(s) on the receive path without a reviewed classification'})]
        return []


PROP = P()
