from core import Property

H_SRV_RESP = 42        # ":status 200": 7 + 3 + 32
H_CLI_REQ = 168        # :method POST 43, :scheme https 44, :authority a 43, :path / 38
PEER_HEADERS_LEN = {'s': 10, 'c': 5}   # wire length of the peer's good HEADERS frame (the harness clamps anyway)


def hx(b):
    return bytes(b).hex() if b else '-'


# every code of h3/src/error/codes.rs (the check regenerates GenCodes from it; this list is only a generator pool)
H3_CODES = [51] + list(range(256, 273)) + [512, 513, 514]
CODE_BOUNDS = [0, 1, 63, 64, 16383, 16384, 2 ** 30 - 1, 2 ** 30, 2 ** 32 + 5, 2 ** 62 - 1]


def any_code(rng):
    r = rng.random()
    if r < 0.5:
        return rng.choice(H3_CODES)
    if r < 0.7:
        return rng.choice(CODE_BOUNDS)
    return rng.getrandbits(rng.choice([8, 16, 33, 62]))


def vlen(v):
    return 1 if v < 64 else 2 if v < 16384 else 4 if v < 2 ** 30 else 8


class P(Property):
    id = 'C07'
    gen_modules = ['gen_codes', 'gen_streamfaults']
    properties_v = 'Properties/C07.v'
    model_targets = ['Model/StreamFaults.vo', 'Spec/StreamScoped.vo']
    extract_v = 'Extract/ExtractC07.v'
    driver_ml = 'C07_driver.ml'
    harness_bin = 'c07'
    rule = ('sf: the real h3 server or client over SimQuic with a scripted peer; 1..4 concurrent requests, each its own '
            'application task, bodies of distinct bytes cut into DATA frames and chunks; a seeded subset gets ONE fault '
            '(RESET with a code from the whole code table / boundaries / random < 2^62, or a transport-specific failure of the receive half, at every kind of byte offset: frame boundary, inside the HEADERS frame, inside a DATA '
            'header, inside a payload; STOP_SENDING at a seeded point; three malformed but validly QPACK-encoded sections; a '
            'section over the configured limit; FIN before HEADERS; and, after a complete body, a malformed trailer '
            'section (uppercase / non-token name, NUL in a value, undefined pseudo-header) or an oversized one - the '
            'application tasks call recv_trailers on every request and a seeded subset of requests sends trailers '
            'itself), a few cases carry a connection-level fault instead '
            '(undecodable QPACK, DATA first, truncated frame + FIN) to exercise the store path; the peer\'s SETTINGS limit and a '
            'GOAWAY arrive at seeded points in some cases; the case line carries the complete seeded schedule of deliveries '
            'and task polls; every request is re-run alone under the projected schedule and diffed. non-trivial = distinct '
            'cases with at least two requests in which the implementation reports a stream-level error on one request while '
            'another one completes normally')

    # ------------------------------------------------------------------ generation
    def healthy_events(self, rng, i):
        """(events, payload bytes) of a well-formed message body after the HEADERS frame"""
        # 'hk<j>' / 'tk0': sections RFC 9114 calls malformed but h3's gate (C12) accepts - healthy messages for h3
        evs, data = [rng.choice(['h'] * 9 + ['hk0', 'hk1', 'hk2', 'hk3'])], []
        ctr = 0
        for _ in range(rng.choice([0, 1, 1, 2, 2, 3])):
            n = rng.choice([0, 1, 2, 3, 4, 6, 9])
            pl = []
            for _ in range(n):
                pl.append(((i + 1) << 4 | (ctr & 15)) & 0xff)
                ctr += 1
            data += pl
            # chunking: header with a prefix of the payload, then pieces
            cut = rng.randint(0, n)
            if rng.random() < 0.4:
                cut = n
            evs.append('d%d:%s' % (n, hx(pl[:cut])))
            rest = pl[cut:]
            while rest:
                k = rng.randint(1, len(rest))
                evs.append('m' + hx(rest[:k]))
                rest = rest[k:]
        if rng.random() < 0.3:
            evs.append(rng.choice(['t', 't', 't', 'tk0']))
        evs.append('F')
        return evs, data

    @staticmethod
    def decorate(rng, evs):
        """chunking that is not at frame starts: complete HEADERS / trailer frames (and DATA frame headers) cut into
        several transport chunks; in healthy messages, one chunk carrying the end of a payload AND the next frame"""
        out = list(evs)
        # h3 reads one transport event ahead; with a RESET queued behind, how many bytes were handed out before it depends
        # on where the chunks are cut (the model knows chunk = event), so only the first frame is cut in such scripts
        healthy = not any(e[0] in 'RK' for e in evs)
        # which events complete a DATA payload (with at least one byte in this event)
        completes, owed = set(), 0
        for k, e in enumerate(out):
            if e[0] == 'd' and ':' in e and not e.startswith('dq'):
                tot, part = e[1:].split(':')
                n = 0 if part == '-' else len(part) // 2
                owed = int(tot) - n
                if owed == 0 and n > 0:
                    completes.add(k)
            elif e[0] == 'm':
                owed -= len(e[1:]) // 2
                if owed == 0:
                    completes.add(k)
        for k, e in enumerate(out):
            if k > 0 and not healthy:
                break
            if e in ('h', 't', 'ho', 'to') or e[:2] in ('hm', 'tm', 'hk', 'tk'):
                if rng.random() < 0.3:
                    out[k] = '%s*%d' % (e, rng.choice([2, 2, 3, 5]))
            elif e[0] == 'd' and ':' in e and rng.random() < 0.15:
                out[k] = e + '*2'
        if healthy:
            for k in sorted(completes):
                nxt = out[k + 1] if k + 1 < len(out) else 'F'
                if nxt[0] in 'dt' and '*' not in out[k] and '*' not in nxt and not out[k - 1].endswith('+') and rng.random() < 0.35:
                    out[k] = out[k] + '+'
        return out

    def reset_script(self, rng, role, evs):
        """cut a healthy script at a seeded byte offset and reset there"""
        code = any_code(rng)
        body = evs[:-1]
        j = rng.randrange(len(body) + 1)
        out = body[:j]
        if j < len(body) and rng.random() < 0.6:
            e = body[j]
            if e[0] == 'h':
                out.append('hp%d' % rng.randint(1, PEER_HEADERS_LEN[role] - 1))
            elif e[0] == 'd':
                tot, part = e[1:].split(':')
                pl = bytes.fromhex(part) if part != '-' else b''
                if rng.random() < 0.35:
                    out.append('dq' + tot)
                elif len(pl) > 0:
                    out.append('d%s:%s' % (tot, hx(pl[:rng.randrange(len(pl))])))
                else:
                    out.append('dq' + tot)
            elif e[0] == 't':
                out.append('tp%d' % rng.randint(1, 5))
            elif e[0] == 'm':
                pl = bytes.fromhex(e[1:])
                x = rng.randrange(len(pl))
                if x > 0:
                    out.append('m' + hx(pl[:x]))
        out.append('K' if rng.random() < 0.2 else 'R%d' % code)
        return out

    def one_case(self, rng, tier, ext=False):
        role = rng.choice(['s', 'c'])
        n = rng.choice([1, 2, 2, 3, 3, 4, 4])
        reqs, nev, stops, zs = [], [], [], []
        modes = [rng.choice('nesp') if ext else 'n' for _ in range(n)]
        for i in range(n):
            evs, _ = self.healthy_events(rng, i)
            kind = rng.choice(['ok', 'ok', 'ok', 'reset', 'reset', 'stop', 'malformed', 'oversized', 'finfirst', 'conn',
                               'trlbad', 'trlbad', 'trlbig'])
            if rng.random() < 0.03:
                kind = 'conn'
            stop = '-'
            if kind == 'reset':
                evs = self.reset_script(rng, role, evs)
            elif kind == 'stop':
                stop = str(any_code(rng))
            elif kind == 'malformed':
                evs = ['hm%d' % rng.randrange(7)] + (evs[1:] if rng.random() < 0.5 else [])
            elif kind == 'oversized':
                evs = ['ho'] + (evs[1:] if rng.random() < 0.5 else [])
            elif kind in ('trlbad', 'trlbig'):
                body = [e for e in evs[:-1] if e[0] != 't']
                evs = body + ['tm%d' % rng.randrange(4) if kind == 'trlbad' else 'to']
                r = rng.random()
                if r < 0.8:
                    evs.append('F')
                elif r < 0.9:
                    evs.append(rng.choice(['K', 'R%d' % any_code(rng)]))
                else:
                    evs += ['tp%d' % rng.randint(1, 5), rng.choice(['R7', 'K'])]
            elif kind == 'finfirst':
                evs = ['F'] if role == 's' or rng.random() < 0.5 else evs
            elif kind == 'conn':
                if rng.random() < 0.85:
                    kind = 'ok'
                else:
                    evs = rng.choice([['hq'], evs[1:], ['hp2', 'F'], ['h', 'd4:aa', 'F'], ['h', 'h', 'F'], ['F'],
                                      ['h', 'tq', 'F'], ['h', 't', 'd1:aa', 'F'], ['h', 't', 't', 'F'], ['h', 'tp2', 'F']])
                    if not evs:
                        evs = ['F']
            if evs[0].startswith('tk'):
                evs[0] = 't'      # as a FIRST frame tk0 is a (tolerated) response on the client: keep the token unambiguous
            evs = self.decorate(rng, evs)
            pad = rng.choice([0, 0, 0, 0, 1, 7, 30])
            z = (H_SRV_RESP if role == 's' else H_CLI_REQ) + ((3 + pad + 32) if pad else 0)
            body = [((i + 9) << 4 | k) & 0xff for k in range(rng.choice([0, 1, 2, 5]))]
            tz = '-' if rng.random() < 0.7 else str(rng.choice([35, 36, 40, 60, 135]))
            reqs.append('%s;%s;%d;%d;%s;%s' % ('.'.join(evs), stop, pad, z, hx(body), tz) + (';' + modes[i] if ext else ''))
            nev.append(len(evs))
            zs.append(z)
            stops.append(stop != '-')
        # schedule
        acts = []
        for i in range(n):
            if role == 's':
                acts.append('o%d' % i)
            acts += ['e%d' % i] * nev[i]
            acts += ['p%d' % i] * rng.randint(1, nev[i] + 5)
            if modes[i] == 's':
                acts += ['q%d' % i] * rng.randint(1, 6)
            if ext:
                acts += ['w%d:%d' % (i, rng.choice([1, 2, 3, 5, 8, 20, 60])) for _ in range(rng.randint(0, 6))]
            if stops[i]:
                acts.append('s%d' % i)
        acts += ['pd'] * rng.randint(0, 3)
        glob = []
        if rng.random() < 0.12:
            glob.append('gS%d' % rng.choice([0, 34, 35, 41, 42, 43, 59, 100, 168, 169, 210, 1000, 2 ** 40]))
            if role == 'c' and rng.random() < 0.4:
                glob.append('gG')
        rng.shuffle(acts)
        if role == 's' and rng.random() < 0.5:
            # usually a stream is announced before its bytes are looked at
            acts.sort(key=lambda a: 0 if a[0] == 'o' else 1)
            head = [a for a in acts if a[0] == 'o']
            tail = [a for a in acts if a[0] != 'o']
            rng.shuffle(tail)
            k = rng.randint(0, len(tail))
            acts = head[:1] + tail[:k] + head[1:] + tail[k:] if rng.random() < 0.5 else head + tail
        for g in glob:
            pos = rng.randint(0, len(acts))
            if g == 'gG':
                pos = rng.randint(acts.index(glob[0]) + 1, len(acts))
            acts.insert(pos, g)
        if ext:
            # always completed: everything arrives, the transport takes everything, every task is polled
            for i in range(n):
                acts += ['e%d' % i] * nev[i] + ['w%d:100000' % i] + ['p%d' % i, 'q%d' % i] * 8
        elif rng.random() < 0.85:
            for i in range(n):
                acts += ['e%d' % i] * nev[i] + ['p%d' % i] * 6
        acts.append('pd')
        # which request carries the connection's one grease frame (h3's default configuration has grease ON):
        # server: the first accepted stream; client: the first request whose send_request succeeds
        holder = '-'
        if rng.random() < 0.5 and not (ext and role == 'c'):
            # (sfx client tasks use SendRequest clones, each with its own grease flag: grease stays off there)
            holder = self.grease_holder(role, n, zs, acts)
        unk = 1 if rng.random() < 0.3 else 0
        if ext:
            budget = rng.choice(['-', '-', '0', '1', '3', '7', '12', '40'])
            return 'sfx %s cfg=g%s,u%d,b%s r=%s sched=%s' % (role, holder, unk, budget, '/'.join(reqs), ','.join(acts))
        return 'sf %s cfg=g%s,u%d r=%s sched=%s' % (role, holder, unk, '/'.join(reqs), ','.join(acts))

    @staticmethod
    def grease_holder(role, n, zs, acts):
        if role == 's':
            for a in acts:
                if a[0] == 'o':
                    return a[1:]
            return '-'
        closing, limit, stopped, polled = False, None, set(), set()
        for a in acts:
            if a == 'gG':
                closing = True
            elif a.startswith('gS'):
                if limit is None:
                    limit = int(a[2:])
            elif a[0] in 'wq':
                continue
            elif a[0] == 's':
                stopped.add(int(a[1:]))
            elif a[0] == 'p' and a != 'pd':
                i = int(a[1:])
                if i in polled:
                    continue
                polled.add(i)
                if closing or (limit is not None and zs[i] > limit) or i in stopped:
                    continue
                return str(i)
        return '-'

    def cases(self, tier, rng):
        k = 4000 if tier == 'quick' else 120000
        out = [self.one_case(rng, tier) for _ in range(k)]
        # other application patterns (early response, split()) and write back-pressure: implementation vs specification only
        out += [self.one_case(rng, tier, ext=True) for _ in range(k // 2)]
        return out

    # ------------------------------------------------------------------ judging
    @staticmethod
    def parse_req(word):
        f = word.split(';')
        d = {'res': f[0]}
        for x in f[1:]:
            k, v = x.split('=', 1)
            d[k] = v
        return d

    @staticmethod
    def sat(o, allow):
        a = allow.split(':')
        data = '' if o['d'] == '-' else o['d']
        if o['res'] == 'run':
            upto = a[1] if a[0] == 'ok' else a[4]
            upto = '' if upto == '-' else upto
            return upto.startswith(data)
        if a[0] == 'ok':
            return o['res'] == 'ok' and o['d'] == a[1] and o['t'] == a[2] and o['c'] == 'F' and o['tr'] == a[3]
        r = o['res'].split(':')
        if r[0] != 'err' or len(r) != 5:
            return False
        _, _api, scope, code, variant = r
        if scope != 's' or variant != a[1] or code != a[2]:
            return False
        # the tabled reset / stop_sending calls were made (order and extra teardown calls are not the property's business)
        if not set(x for x in a[3].split('.') if x != '-') <= set(o['c'].split('.')):
            return False
        upto = '' if a[4] == '-' else a[4]
        if not upto.startswith(data):
            return False
        if a[5] == '*' or o['t'] == a[5]:
            return True
        # frames of a reserved (grease) type after what the property requires on the refused stream are valid HTTP/3 and
        # harmless: compared implementation-vs-model only, never a failing input
        want = '' if a[5] == '-' else a[5]
        rest = o['t'][len(want):] if o['t'].startswith(want) else None
        return rest is not None and all(x == 'g' for x in rest.split('.') if x)

    @staticmethod
    def must_be_finished(case):
        """indices of the requests whose peer events have all been delivered and whose task was polled at least 6
        times afterwards (and, server, after the stream was accepted): C07_completes says 5 polls finish them"""
        w = case.split()
        reqs = w[3][2:].split('/')
        evl = [r.split(';')[0].split('.') for r in reqs]
        nev = [len(x) for x in evl]
        acts = w[4][6:].split(',')
        left = list(nev)
        opened = [w[1] == 'c'] * len(reqs)
        polls = [0] * len(reqs)
        for a in acts:
            if a[0] in 'oesp' and a != 'pd' and ':' not in a:
                i = int(a[1:])
                if a[0] == 'o':
                    opened[i] = True
                elif a[0] == 'e' and left[i] > 0:
                    left[i] -= 2 if evl[i][nev[i] - left[i]].endswith('+') else 1
                elif a[0] == 'p' and left[i] == 0 and opened[i]:
                    polls[i] += 1
        return {i for i in range(len(reqs)) if polls[i] >= 6}

    def canon(self, case, out):
        # family sfx has no model column: only the specification judges the implementation
        return 'sfx' if case.startswith('sfx ') else out

    @staticmethod
    def sat_x(o, allows, strict=True):
        """family sfx: every half of the request is ok or shows one of the allowed stream-level errors; nothing may still run"""
        al = [a.split(':') for a in allows]
        oks = [a for a in al if a[0] == 'ok']
        errs = [a for a in al if a[0] == 'err']
        data = '' if o['d'] == '-' else o['d']
        halves = o['res'].split('&')
        if 'run' in halves:
            return not strict
        seen = set(o['c'].split('.'))
        if 'c' in o.get('l', ''):
            return False                      # a later call on the faulted request escalated to the connection
        for k, h in enumerate(halves):
            if h == '-':
                continue                      # the send half was never created
            if h == 'ok':
                if k == 0 and not oks:
                    return False              # the receiving side must see the fault
                continue
            r = h.split(':')
            if r[0] != 'err' or len(r) != 5 or r[2] != 's':
                return False
            m = [a for a in errs if a[1] == r[4] and a[2] == r[3] and ('' if a[4] == '-' else a[4]).startswith(data)
                 and set(x for x in a[3].split('.') if x != '-') <= seen]
            if not m:
                return False
        if all(h == 'ok' for h in halves):
            a = oks[0]
            return o['d'] == a[1] and o['t'] == a[2] and o['c'] == 'F' and o['tr'] == a[3]
        if halves[0] == 'ok' and oks:
            a = oks[0]
            if o['d'] != a[1] or o['tr'] != a[3]:
                return False
        return True

    def spec_ok(self, case, out, spec):
        if spec is None or out == '-':
            return True
        if case.startswith('sfx '):
            ow, sw = out.split(), spec.split()
            if len(ow) != len(sw) or not ow or ow[0] != 'ok':
                return False
            strict = sw[-2:] == ['conn=ok;close=-', 'solo=same']   # a connection-level fault elsewhere may starve a request
            for o, s_ in zip(ow[1:], sw[1:]):
                if '~' in s_:
                    name, allows = s_.split('~', 1)
                    if not o.startswith(name + '='):
                        return False
                    if allows != '*' and not self.sat_x(self.parse_req(o[len(name) + 1:]), allows.split('|'), strict):
                        return False
                elif s_.endswith('=*'):
                    if not o.startswith(s_[:-1]):
                        return False
                elif o != s_:
                    return False
            return True
        ow, sw = out.split(), spec.split()
        done = self.must_be_finished(case) if sw[-2:] == ['conn=ok;close=-', 'solo=same'] else set()
        if len(ow) != len(sw) or not ow or ow[0] != 'ok':
            return False
        for o, s in zip(ow[1:], sw[1:]):
            if '~' in s:
                name, allows = s.split('~', 1)
                if not o.startswith(name + '='):
                    return False
                if allows == '*':
                    continue
                ob = self.parse_req(o[len(name) + 1:])
                if ob['res'] == 'run' and int(name[1:]) in done:
                    return False          # a stalled request: everything has arrived and the task was polled
                if not any(self.sat(ob, a) for a in allows.split('|')):
                    return False
            elif s.endswith('=*'):
                if not o.startswith(s[:-1]):
                    return False
            elif o != s:
                return False
        return True

    def nontrivial_key(self, case, impl_out):
        ws = impl_out.split()
        rs = [w for w in ws if w[:1] == 'r' and '=' in w]
        if len(rs) < 2:
            return None
        faulted = any(':s:' in w.split(';')[0] for w in rs)
        fine = any(w.split('=', 1)[1].startswith('ok;') for w in rs)
        return case if faulted and fine else None

    def family(self, case):
        w = case.split()
        if len(w) < 3:
            return 'sf'
        return '%s.%s.n%d' % (w[0], w[1], w[3].count('/') + 1)

    def shrink_candidates(self, case):
        w = case.split()
        if len(w) != 5 or not w[4].startswith('sched=') or w[0] != 'sf':
            return []      # (family sfx: the completing tail is part of what is judged, the case is kept whole)
        toks = w[4][6:].split(',')
        out = []
        for k in range(len(toks)):
            if toks[k][0] in 'og':
                continue
            t = toks[:k] + toks[k + 1:]
            cfg = w[2]
            if not cfg.startswith('cfg=g-'):
                # the grease holder is a function of the schedule: keep the case line consistent
                reqs = w[3][2:].split('/')
                zs = [int(r.split(';')[3]) for r in reqs]
                cfg = 'cfg=g%s,%s' % (self.grease_holder(w[1], len(reqs), zs, t), cfg.split(',')[1])
            out.append(' '.join([w[0], w[1], cfg, w[3], 'sched=' + (','.join(t) or '-')]))
            if len(out) >= 60:
                break
        return out


PROP = P()
